#!/usr/bin/env python3
"""Run every seeded change against its property's quick check and record the outcome in seeded/<id>/meta.json."""
import json, os, re, subprocess, sys, time
root = "/verif/seeded"
only = sys.argv[1:]
for name in sorted(os.listdir(root)):
    d = os.path.join(root, name)
    patch = os.path.join(d, "patch.diff")
    if not os.path.exists(patch) or (only and name not in only):
        continue
    prop = name[:3]
    t0 = time.time()
    p = subprocess.run(["/verif/tools/run_seed.sh", prop, patch], capture_output=True, text=True)
    out = p.stdout
    m = re.search(r"exit=(\d+)", out)
    rc = int(m.group(1)) if m else None
    lines = [l for l in out.splitlines() if l.startswith(("VIOLATION", "INCONCLUSIVE", "UNCONFIRMED", "ENCODER"))][:3]
    mp = os.path.join(d, "meta.json")
    meta = json.load(open(mp)) if os.path.exists(mp) else {"property": prop, "id": name}
    meta["detection"] = {"command": "./check %s --tier quick (with patch.diff applied to /repo, then reverted)" % prop, "exit": rc,
                         "caught": rc == 1, "first_lines": lines, "wall_s": round(time.time() - t0, 1)}
    json.dump(meta, open(mp, "w"), indent=1, ensure_ascii=False)
    print(name, "exit=%s" % rc, "caught" if rc == 1 else "NOT CAUGHT", round(time.time() - t0, 1), flush=True)
