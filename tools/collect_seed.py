#!/usr/bin/env python3
"""collect_seed.py <PROP> <mN>: copy a confirmed seeded change from its scratch worktree into /verif/seeded/<PROP>-<mN>/"""
import json, os, shutil, sys
prop, m = sys.argv[1], sys.argv[2]
wt = "/tmp/wt/%s/mutants" % prop
name = sys.argv[3] if len(sys.argv) > 3 else "%s-%s" % (prop, m)
dst = "/verif/seeded/%s" % name
prop_id = prop[:3]
os.makedirs(dst, exist_ok=True)
shutil.copy(os.path.join(wt, m + ".diff"), os.path.join(dst, "patch.diff"))
demo_src = os.path.join(wt, m + "_demo")
demo_dst = os.path.join(dst, "demo")
if os.path.isdir(demo_dst):
    shutil.rmtree(demo_dst)
shutil.copytree(demo_src, demo_dst, ignore=shutil.ignore_patterns("target", "Cargo.lock"))
desc = open(os.path.join(wt, m + ".md")).read() if os.path.exists(os.path.join(wt, m + ".md")) else ""
conf = json.load(open(os.path.join(wt, m + ".confirm.json")))
meta = {
    "property": prop_id,
    "id": name,
    "description": desc,
    "needs_to_manifest": desc,
    "confirmed_in_scratch_worktree": {
        "worktree": "/tmp/wt/%s (git worktree of /repo, removed afterwards)" % prop,
        "commands": ["git apply patch.diff", "cargo build --workspace --offline", "cargo test --workspace --no-fail-fast --offline", "demo/run.sh (with and without the change)"],
        "builds": conf["build_rc"] == 0, "existing_tests": conf["tests"], "existing_tests_rc": conf["tests_rc"],
        "demo_exit_without_change": conf["demo_rc_clean"], "demo_exit_with_change": conf["demo_rc_with_change"],
    },
    "note": "the demo's Cargo.toml points at the scratch worktree path it was written in; re-point the path dependency at a checkout of /repo to re-run it",
}
old = os.path.join(dst, "meta.json")
if os.path.exists(old):
    try:
        prev = json.load(open(old))
        for k in ("detection",):
            if k in prev:
                meta[k] = prev[k]
    except Exception:
        pass
json.dump(meta, open(old, "w"), indent=1, ensure_ascii=False)
print("stored", dst)
