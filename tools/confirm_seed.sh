#!/bin/bash
# confirm_seed.sh <PROP> <mN>: confirm a seeded change in its scratch worktree /tmp/wt/<PROP>
# (compiles, existing tests pass, demonstration fails with the change and passes without it)
P=$1; M=$2; WT=/tmp/wt/$P
export CARGO_NET_OFFLINE=true CARGO_TARGET_DIR=$WT/target
cd $WT || exit 9
git checkout -q -- . 
LOG=$WT/mutants/$M.confirm.log; : > $LOG
( cd mutants/${M}_demo && bash run.sh ) >> $LOG 2>&1; CLEAN_RC=$?
git apply mutants/$M.diff || { echo "apply failed" >> $LOG; exit 8; }
cargo build --workspace --offline >> $LOG 2>&1; BUILD_RC=$?
cargo test --workspace --no-fail-fast --offline > $WT/mutants/$M.tests.log 2>&1; TEST_RC=$?
PASSED=$(grep -E "^test result" $WT/mutants/$M.tests.log | awk '{p+=$4; f+=$6} END {print p" passed "f" failed"}')
( cd mutants/${M}_demo && bash run.sh ) >> $LOG 2>&1; MUT_RC=$?
git checkout -q -- .
echo "{\"prop\":\"$P\",\"mutant\":\"$M\",\"demo_rc_clean\":$CLEAN_RC,\"build_rc\":$BUILD_RC,\"tests_rc\":$TEST_RC,\"tests\":\"$PASSED\",\"demo_rc_with_change\":$MUT_RC}" | tee $WT/mutants/$M.confirm.json
