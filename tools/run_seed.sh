#!/bin/bash
# run_seed.sh <PROP> <patch.diff> [tier]: apply a seeded change to /repo, run the property's check, undo the change
P=$1; D=$2; T=${3:-quick}
cd /verif
git -C /repo apply "$D" || { echo "APPLY-FAILED $D"; exit 9; }
# evidence files are only ever committed from runs on the unchanged tree: keep the current one aside
cp evidence/$P.json /tmp/evidence_$P.keep 2>/dev/null
./check $P --tier $T > /tmp/seed_$P.out 2>&1; RC=$?
git -C /repo checkout -- .
cp /tmp/evidence_$P.keep evidence/$P.json 2>/dev/null
echo "== $P $(basename $(dirname $D))/$(basename $D) exit=$RC"
grep -E "^(VIOLATION|KNOWN-FINDING|INCONCLUSIVE|UNCONFIRMED|ENCODER)" /tmp/seed_$P.out | cut -c1-260 | head -4
exit $RC
