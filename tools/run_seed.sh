#!/bin/bash
# run_seed.sh <PROP> <patch.diff> [tier]: apply a seeded change to /repo, run the property's check, undo the change
P=$1; D=$2; T=${3:-quick}
cd /verif
git -C /repo apply "$D" || { echo "APPLY-FAILED $D"; exit 9; }
./check $P --tier $T > /tmp/seed_$P.out 2>&1; RC=$?
git -C /repo checkout -- .
echo "== $P $(basename $(dirname $D))/$(basename $D) exit=$RC"
grep -E "^(VIOLATION|KNOWN-FINDING|INCONCLUSIVE|UNCONFIRMED|ENCODER)" /tmp/seed_$P.out | cut -c1-260 | head -4
exit $RC
