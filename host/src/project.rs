//! Per project driver: real code generation, then symbolic evaluation of every accessor.
use crate::index::{AbsPath, Index, ItemKind};
use crate::symeval::{short, tok, Ev, Val, R};
use crate::term::*;
use serde_json::{json, Value as J};
use std::collections::BTreeMap;
use std::sync::Mutex;

static LAST_PANIC: Mutex<String> = Mutex::new(String::new());

pub fn install_panic_hook() {
    std::panic::set_hook(Box::new(|info| {
        let msg = if let Some(s) = info.payload().downcast_ref::<&str>() {
            s.to_string()
        } else if let Some(s) = info.payload().downcast_ref::<String>() {
            s.clone()
        } else {
            "panic".to_string()
        };
        let loc = info.location().map(|l| format!("{}:{}", l.file(), l.line())).unwrap_or_default();
        *LAST_PANIC.lock().unwrap() = format!("{} at {}", msg, loc);
    }));
}

pub fn process(dir: &str) -> J {
    install_panic_hook();
    std::env::set_var("CARGO_MANIFEST_DIR", dir);
    let t0 = std::time::Instant::now();
    let r = std::panic::catch_unwind(|| crate::load_locales::load_locales());
    let gen_ms = t0.elapsed().as_secs_f64() * 1000.0;
    let ts = match r {
        Ok(Ok(ts)) => ts,
        Ok(Err(e)) => return json!({"dir": dir, "status":"error", "error": e.to_string(), "gen_ms": gen_ms}),
        Err(_) => {
            return json!({"dir": dir, "status":"panic", "panic": LAST_PANIC.lock().unwrap().clone(), "gen_ms": gen_ms})
        }
    };
    let text = ts.to_string();
    let file = match syn::parse_file(&text) {
        Ok(f) => f,
        Err(e) => return json!({"dir": dir, "status":"unparsable", "error": e.to_string(), "gen_ms": gen_ms}),
    };
    let r = std::panic::catch_unwind(std::panic::AssertUnwindSafe(|| evaluate(&file)));
    match r {
        Ok(Ok(mut j)) => {
            j["dir"] = json!(dir);
            j["status"] = json!("ok");
            j["gen_ms"] = json!(gen_ms);
            j["eval_ms"] = json!(t0.elapsed().as_secs_f64() * 1000.0 - gen_ms);
            j["tokens_len"] = json!(text.len());
            j
        }
        Ok(Err(e)) => json!({"dir": dir, "status":"eval_error", "error": e, "gen_ms": gen_ms}),
        Err(_) => json!({"dir": dir, "status":"eval_panic", "panic": LAST_PANIC.lock().unwrap().clone(), "gen_ms": gen_ms}),
    }
}

fn term_or_err(r: R<Term>) -> J {
    match r {
        Ok(t) => t.to_json(),
        Err(e) => json!({"err": e}),
    }
}

fn sym_keys(ty: &AbsPath) -> Val {
    let mut f = BTreeMap::new();
    f.insert("0".to_string(), Val::Loc(LocT::Sym));
    Val::Struct(ty.clone(), f)
}

fn is_litwrapper(v: &Val) -> bool {
    match v {
        Val::Variant(p, _) => p.last().map(|s| s == "LitWrapper").unwrap_or(false),
        Val::Ite(_, a, b) => is_litwrapper(a) && (is_litwrapper(b) || matches!(**b, Val::Str(Term::Unreach(_)))),
        _ => false,
    }
}

struct KeyOut {
    path: Vec<String>,
    j: J,
}

fn evaluate(file: &syn::File) -> R<J> {
    let idx = Index::build(file);
    // locate the Locale enum and the keys type
    let (enum_path, variants, default) = idx
        .items
        .iter()
        .find_map(|(p, k)| match k {
            ItemKind::Enum { variants, default } if p.last().map(|s| s == "Locale").unwrap_or(false) => {
                Some((p.clone(), variants.clone(), default.clone()))
            }
            _ => None,
        })
        .ok_or("no Locale enum in generated code")?;
    let module: AbsPath = enum_path[..enum_path.len() - 1].to_vec();
    let mut keys_ty = module.clone();
    keys_ty.push("I18nKeys".into());
    if !idx.items.contains_key(&keys_ty) {
        return Err("no I18nKeys type".into());
    }

    let mut out: Vec<KeyOut> = Vec::new();
    let mut notes: Vec<String> = Vec::new();
    walk_keys(&idx, &keys_ty, &mut vec![], &mut out, &mut notes, 0)?;

    // string tables
    let mut tables = serde_json::Map::new();
    for info in &idx.impls {
        if info.trait_name.as_deref() == Some("TranslationUnit") {
            let mut ev = Ev::new(&idx);
            let name = info.self_ty.last().unwrap().clone();
            let strings = idx
                .find_const(&info.self_ty, "STRINGS", Some("TranslationUnit"))
                .ok_or("no STRINGS")
                .map_err(|e| e.to_string())
                .and_then(|(i, c)| {
                    ev.module = i.module.clone();
                    ev.self_ty = Some(i.self_ty.clone());
                    ev.eval(&c.expr)
                });
            let locale = idx
                .find_const(&info.self_ty, "LOCALE", Some("TranslationUnit"))
                .map(|(_, c)| tok(&c.expr))
                .unwrap_or_default();
            let declared_n = idx
                .find_const(&info.self_ty, "STRINGS", Some("TranslationUnit"))
                .map(|(_, c)| tok(&c.ty))
                .unwrap_or_default();
            let arr = match strings {
                Ok(Val::Array(items)) => items
                    .iter()
                    .map(|v| match v {
                        Val::Str(Term::Str(s)) => json!(s),
                        other => json!({"err": short(other)}),
                    })
                    .collect::<Vec<_>>(),
                Ok(other) => vec![json!({"err": short(&other)})],
                Err(e) => vec![json!({"err": e})],
            };
            tables.insert(
                info.self_ty[module.len()..].join("::"),
                json!({"name": name, "locale": locale, "declared_type": declared_n, "strings": arr}),
            );
        }
    }

    let locale_enum = extract_locale_enum(&idx, &enum_path);

    Ok(json!({
        "locales": variants,
        "default": default,
        "keys": out.into_iter().map(|k| k.j).collect::<Vec<_>>(),
        "tables": tables,
        "locale_enum": locale_enum,
        "notes": notes,
    }))
}

fn walk_keys(
    idx: &Index,
    ty: &AbsPath,
    path: &mut Vec<String>,
    out: &mut Vec<KeyOut>,
    notes: &mut Vec<String>,
    depth: usize,
) -> R<()> {
    if depth > 12 {
        return Err("key nesting too deep".into());
    }
    let mut methods: Vec<String> = Vec::new();
    for info in &idx.impls {
        if &info.self_ty == ty && info.trait_name.is_none() {
            for it in &info.imp.items {
                if let syn::ImplItem::Fn(f) = it {
                    let name = f.sig.ident.to_string();
                    let takes_self = matches!(f.sig.inputs.first(), Some(syn::FnArg::Receiver(_)));
                    if takes_self && !name.starts_with("__") && f.sig.inputs.len() == 1 {
                        methods.push(name);
                    }
                }
            }
        }
    }
    for name in methods {
        path.push(name.clone());
        let mut ev = Ev::new(idx);
        let r = ev.method(sym_keys(ty), &name, vec![]);
        match r {
            Err(e) => out.push(KeyOut {
                path: path.clone(),
                j: json!({"path": path, "kind":"unknown", "err": e}),
            }),
            Ok(v) if is_litwrapper(&v) => {
                let lit = ev.render(&v);
                let registered = ev.registered();
                let index_uses = ev.index_uses.clone();
                let mut j = json!({"path": path, "kind":"lit", "fields": [], "lit": term_or_err(lit),
                    "index_uses": index_uses.iter().map(|(n,i,l)| json!([n,i,l])).collect::<Vec<_>>()});
                if cfg!(feature = "dynamic_load") {
                    j["registered"] = registered.to_json();
                }
                // the t*! macro expansions on a literal key
                j["macros"] = macro_terms(idx, path, &[]);
                // return type as declared
                if let Some((_, f)) = idx.find_method(ty, &name, None).first() {
                    j["ret"] = json!(tok(&f.sig.output));
                }
                out.push(KeyOut { path: path.clone(), j });
            }
            Ok(Val::Struct(sty, fields)) => {
                let sname = sty.last().unwrap().clone();
                if sname.ends_with("_dummy") {
                    let j = builder_key(idx, path, &sty, Val::Struct(sty.clone(), fields));
                    out.push(KeyOut { path: path.clone(), j });
                } else {
                    // subkeys / namespace: must carry the symbolic locale unchanged
                    match fields.get("0") {
                        Some(Val::Loc(LocT::Sym)) => {}
                        other => notes.push(format!(
                            "{}: nested keys struct does not carry the requested locale ({:?})",
                            path.join("."),
                            other.map(short)
                        )),
                    }
                    // scoping: `<S as LocaleKeys>::from_locale(l)` (what a scoped context / scoped locale uses to build
                    // the keys of scope S) must be the very value the accessor chain gives for the same locale
                    let via_accessors = Val::Struct(sty.clone(), fields.clone());
                    let mut ev2 = Ev::new(idx);
                    let scoped = idx
                        .find_method(&sty, "from_locale", Some("LocaleKeys"))
                        .first()
                        .copied()
                        .ok_or_else(|| "no LocaleKeys impl".to_string())
                        .and_then(|(info, f)| ev2.call_fn(info, f, None, vec![Val::Loc(LocT::Sym)]));
                    match scoped {
                        Ok(v) if v == via_accessors => notes.push(format!("scope-ok {}", path.join("."))),
                        Ok(v) => notes.push(format!(
                            "scope-differs {}: from_locale gives {} with locale {:?}",
                            path.join("."),
                            short(&v),
                            match &v { Val::Struct(_, f) => f.get("0").map(short), _ => None }
                        )),
                        Err(e) => notes.push(format!("scope-unknown {}: {}", path.join("."), e)),
                    }
                    walk_keys(idx, &sty, path, out, notes, depth + 1)?;
                }
            }
            Ok(other) => out.push(KeyOut {
                path: path.clone(),
                j: json!({"path": path, "kind":"unknown", "err": format!("accessor returned {}", short(&other))}),
            }),
        }
        path.pop();
    }
    Ok(())
}

fn builder_fields(idx: &Index, builder_ty: &AbsPath) -> Vec<String> {
    match idx.items.get(builder_ty) {
        Some(ItemKind::Struct { fields, .. }) => fields
            .iter()
            .filter(|f| f.as_str() != "_locale" && f.as_str() != "_into_views_marker")
            .cloned()
            .collect(),
        _ => vec![],
    }
}

fn builder_key(idx: &Index, path: &[String], dummy_ty: &AbsPath, dummy: Val) -> J {
    let dname = dummy_ty.last().unwrap();
    let bname = dname.trim_end_matches("_dummy").to_string();
    let mut bty: AbsPath = dummy_ty[..dummy_ty.len() - 1].to_vec();
    bty.push(bname.clone());
    let fields = builder_fields(idx, &bty);

    // generic bounds of the into_view impl and of the Display impl
    let mut bounds = serde_json::Map::new();
    for info in &idx.impls {
        if info.self_ty == bty && info.trait_name.is_none() {
            for gp in &info.imp.generics.params {
                if let syn::GenericParam::Type(tp) = gp {
                    let n = tp.ident.to_string();
                    let b: Vec<String> = tp.bounds.iter().map(|b| tok(b).replace(' ', "")).collect();
                    bounds.insert(n, json!(b));
                }
            }
        }
    }
    let mut display_self = J::Null;
    let mut dty = bty.clone();
    *dty.last_mut().unwrap() = format!("{}Display", bname);
    for info in &idx.impls {
        if info.self_ty == dty && info.trait_name.as_deref() == Some("Display") {
            display_self = json!(tok(&info.self_ty_syn).replace(' ', ""));
        }
    }

    let set_fields = |ev: &mut Ev, mut b: Val| -> R<Val> {
        for f in &fields {
            b = ev.method(b, f, vec![Val::Field(f.clone())])?;
        }
        Ok(b)
    };

    // view
    let mut ev = Ev::new(idx);
    let view = (|| {
        let b = ev.method(dummy.clone(), "builder", vec![])?;
        let b = set_fields(&mut ev, b)?;
        let s = ev.method(b, "build", vec![])?;
        let v = ev.method(s, "into_view", vec![])?;
        ev.render(&v)
    })();
    let mut index_uses = ev.index_uses.clone();

    // display (build_display) and string (build_string)
    let mut ev = Ev::new(idx);
    let display = (|| {
        let b = ev.method(dummy.clone(), "display_builder", vec![])?;
        let b = set_fields(&mut ev, b)?;
        let d = ev.method(b, "build_display", vec![])?;
        ev.render(&d)
    })();
    index_uses.extend(ev.index_uses.clone());
    let mut ev = Ev::new(idx);
    let string = (|| {
        let b = ev.method(dummy.clone(), "display_builder", vec![])?;
        let b = set_fields(&mut ev, b)?;
        let d = ev.method(b, "build_string", vec![])?;
        ev.render(&d)
    })();
    let registered = ev.registered();

    json!({
        "path": path, "kind": "builder", "fields": fields, "bounds": bounds, "display_self": display_self,
        "view": term_or_err(view), "display": term_or_err(display), "string": term_or_err(string),
        "index_uses": index_uses.iter().map(|(n,i,l)| json!([n,i,l])).collect::<Vec<_>>(),
        "macros": macro_terms(idx, path, &fields),
        "registered": if cfg!(feature = "dynamic_load") { registered.to_json() } else { json!(null) },
    })
}

/// Expand the real t_macro_inner for the nine (input, output) flavours and evaluate the expansion.
fn macro_terms(idx: &Index, path: &[String], fields: &[String]) -> J {
    use crate::t_macro::{t_macro_inner, InputType, OutputType};
    let mut input = format!("LOC, {}", path.join("."));
    for f in fields {
        if let Some(n) = f.strip_prefix("var_") {
            input.push_str(&format!(", {} = {}", n, f));
        } else if let Some(n) = f.strip_prefix("comp_") {
            input.push_str(&format!(", <{}> = {}", n, f));
        }
    }
    let mut m = serde_json::Map::new();
    for (iname, it) in [("td", InputType::Locale), ("t", InputType::Context), ("tu", InputType::Untracked)] {
        for (oname, ot) in [("view", OutputType::View), ("string", OutputType::String), ("display", OutputType::Display)] {
            let r: R<Term> = (|| {
                let parsed: crate::t_macro::parsed_input::ParsedInput =
                    syn::parse_str(&input).map_err(|e| format!("macro input: {}", e))?;
                let ts = t_macro_inner(parsed, it, ot);
                let expr: syn::Expr = syn::parse_str(&ts.to_string()).map_err(|e| format!("macro output: {}", e))?;
                let mut ev = Ev::new(idx);
                ev.bind("LOC", Val::Loc(LocT::Sym));
                for f in fields {
                    ev.bind(f, Val::Field(f.clone()));
                }
                let v = ev.eval(&expr)?;
                ev.render(&v)
            })();
            m.insert(format!("{}_{}", iname, oname), term_or_err(r));
        }
    }
    J::Object(m)
}

fn match_arms_of(f: &syn::ImplItemFn) -> Vec<(String, String)> {
    struct V(Vec<(String, String)>);
    impl<'ast> syn::visit::Visit<'ast> for V {
        fn visit_expr_match(&mut self, m: &'ast syn::ExprMatch) {
            for arm in &m.arms {
                self.0.push((tok(&arm.pat), tok(&*arm.body)));
            }
        }
    }
    let mut v = V(vec![]);
    syn::visit::Visit::visit_impl_item_fn(&mut v, f);
    v.0
}

fn render_tok(v: &Val) -> R<Term> {
    match v {
        Val::Tok(s) => Ok(Term::Str(s.split_whitespace().collect::<String>())),
        Val::Str(t) => Ok(t.clone()),
        Val::Ite(c, a, b) => Ok(Term::Ite(c.clone(), Box::new(render_tok(a)?), Box::new(render_tok(b)?))),
        other => Err(format!("expected a constant path, got {}", short(other))),
    }
}

fn render_result(v: &Val) -> R<Term> {
    match v {
        Val::Variant(p, a) if p.last().map(|s| s == "Ok").unwrap_or(false) => match a.first() {
            Some(Val::Loc(LocT::Const(c))) => Ok(Term::Str(format!("ok:{}", c))),
            other => Err(format!("Ok({:?})", other.map(short))),
        },
        Val::Variant(p, _) if p.last().map(|s| s == "Err").unwrap_or(false) => Ok(Term::Str("err".into())),
        Val::Ite(c, a, b) => Ok(Term::Ite(c.clone(), Box::new(render_result(a)?), Box::new(render_result(b)?))),
        Val::Str(Term::Unreach(w)) => Ok(Term::Unreach(w.clone())),
        other => Err(format!("from_str returned {}", short(other))),
    }
}

fn extract_locale_enum(idx: &Index, enum_path: &AbsPath) -> J {
    let mut m = serde_json::Map::new();
    // symbolic evaluation of the identity methods
    {
        let mut ev = Ev::new(idx);
        let r = idx.find_method(enum_path, "as_str", None).first().copied().ok_or("no as_str".to_string())
            .and_then(|(info, f)| ev.call_fn(info, f, Some(Val::Loc(LocT::Sym)), vec![]))
            .and_then(|v| ev.render(&v));
        m.insert("as_str_term".into(), term_or_err(r));
        let mut ev = Ev::new(idx);
        let r = idx.find_method(enum_path, "from_str", Some("FromStr")).first().copied().ok_or("no from_str".to_string())
            .and_then(|(info, f)| ev.call_fn(info, f, None, vec![Val::Str(Term::Var("s".into()))]))
            .and_then(|v| render_result(&v));
        m.insert("from_str_term".into(), term_or_err(r));
        // `impl Display for Locale` (what the cookie codec FromToStringCodec writes): must print as_str
        {
            let mut ev = Ev::new(idx);
            let r = idx.find_method(enum_path, "fmt", Some("Display")).first().copied().ok_or("no Display impl".to_string()).and_then(|(info, f)| {
                let id = ev.sinks.len();
                ev.sinks.push(vec![]);
                ev.call_fn(info, f, Some(Val::Loc(LocT::Sym)), vec![Val::Sink(id)])?;
                Ok(Term::cat(std::mem::take(&mut ev.sinks[id])))
            });
            m.insert("display_term".into(), term_or_err(r));
        }
        for name in ["direction", "as_icu_locale"] {
            let mut ev = Ev::new(idx);
            let r = idx.find_method(enum_path, name, None).first().copied().ok_or(format!("no {}", name))
                .and_then(|(info, f)| ev.call_fn(info, f, Some(Val::Loc(LocT::Sym)), vec![]))
                .and_then(|v| render_tok(&v));
            m.insert(format!("{}_term", name), term_or_err(r));
        }
        let mut ev = Ev::new(idx);
        let r = idx.find_method(enum_path, "get_all", None).first().copied().ok_or("no get_all".to_string())
            .and_then(|(info, f)| ev.call_fn(info, f, None, vec![]));
        m.insert("get_all_list".into(), match r {
            Ok(Val::Array(items)) => json!(items.iter().map(|v| match v { Val::Loc(LocT::Const(c)) => json!(c), o => json!({"err": short(o)}) }).collect::<Vec<_>>()),
            Ok(o) => json!({"err": short(&o)}),
            Err(e) => json!({"err": e}),
        });
    }
    for name in ["as_str", "from_str", "direction", "as_icu_locale"] {
        if let Some((_, f)) = idx.find_method(enum_path, name, None).first() {
            m.insert(name.to_string(), json!(match_arms_of(f)));
            if name == "from_str" {
                // scrutinee expression, to know whether the input is trimmed
                struct S(Option<String>);
                impl<'ast> syn::visit::Visit<'ast> for S {
                    fn visit_expr_match(&mut self, mm: &'ast syn::ExprMatch) {
                        self.0 = Some(tok(&*mm.expr));
                    }
                }
                let mut s = S(None);
                syn::visit::Visit::visit_impl_item_fn(&mut s, f);
                m.insert("from_str_scrutinee".into(), json!(s.0));
            }
            if name == "as_icu_locale" {
                let mut consts = Vec::new();
                for st in &f.block.stmts {
                    if let syn::Stmt::Item(syn::Item::Const(c)) = st {
                        consts.push((c.ident.to_string(), tok(&c.expr)));
                    }
                }
                m.insert("icu_consts".into(), json!(consts));
            }
        }
    }
    if let Some((_, f)) = idx.find_method(enum_path, "get_all", None).first() {
        m.insert("get_all".into(), json!(tok(&f.block)));
    }
    J::Object(m)
}
