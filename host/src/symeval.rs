//! Symbolic evaluator for the Rust subset emitted by leptos_i18n_macro's code generator.
//! Anything outside the subset is an `Err(reason)` (reported as inconclusive by the caller).
use crate::index::{AbsPath, ImplInfo, Index, ItemKind, Resolved};
use crate::term::*;
use std::collections::{BTreeMap, HashMap};
use std::rc::Rc;
use syn::{Expr, Pat, Stmt};

pub type R<T> = Result<T, String>;

#[derive(Clone, Debug)]
pub struct ClosureData {
    pub params: Vec<Pat>,
    pub body: Expr,
    pub env: Vec<HashMap<String, Val>>,
    pub module: AbsPath,
    pub self_ty: Option<AbsPath>,
}

#[derive(Clone, Debug)]
pub enum Val {
    Unit,
    Str(Term),
    Num(NumT),
    Bool(bool),
    Field(String),
    Loc(LocT),
    /// external enum variant / tuple-struct constructor application, e.g. Either::Left(x), Ok(()), LitWrapper(x)
    Variant(Vec<String>, Vec<Val>),
    Struct(AbsPath, BTreeMap<String, Val>),
    Builder(AbsPath, BTreeMap<String, Val>),
    Tuple(Vec<Val>),
    Array(Vec<Val>),
    Closure(Rc<ClosureData>),
    Ite(Cond, Box<Val>, Box<Val>),
    Sink(usize),
    PluralRules(LocT, String),
    Cat(CatT),
    Cond(Cond),
    Range(Option<NumT>, Option<NumT>, bool),
    Tok(String),
    /// a generated type used as a value position path (unit struct)
    UnitStruct(AbsPath),
}

impl PartialEq for Val {
    fn eq(&self, other: &Val) -> bool {
        use Val::*;
        match (self, other) {
            (Unit, Unit) => true,
            (Str(a), Str(b)) => a == b,
            (Num(a), Num(b)) => a == b,
            (Bool(a), Bool(b)) => a == b,
            (Field(a), Field(b)) => a == b,
            (Loc(a), Loc(b)) => a == b,
            (Variant(a, x), Variant(b, y)) => a == b && x == y,
            (Struct(a, x), Struct(b, y)) => a == b && x == y,
            (Tuple(a), Tuple(b)) => a == b,
            (Array(a), Array(b)) => a == b,
            (Closure(a), Closure(b)) => Rc::ptr_eq(a, b),
            (Ite(c, a, b), Ite(d, x, y)) => c == d && a == x && b == y,
            (Tok(a), Tok(b)) => a == b,
            (Cond(a), Cond(b)) => a == b,
            _ => false,
        }
    }
}

pub struct Ev<'a> {
    pub idx: &'a Index,
    pub env: Vec<HashMap<String, Val>>,
    pub module: AbsPath,
    pub self_ty: Option<AbsPath>,
    pub sinks: Vec<Vec<Term>>,
    pub depth: usize,
    /// facts recorded while evaluating (index_translations uses etc.)
    pub index_uses: Vec<(usize, usize, usize)>, // (N generic, I generic, actual table len)
    pub notes: Vec<String>,
}

fn path_segs(p: &syn::Path) -> Vec<String> {
    p.segments.iter().map(|s| s.ident.to_string()).collect()
}

fn norm_ext(segs: &[String]) -> Vec<String> {
    segs.iter()
        .map(|s| if s == "l_i18n_crate" { "leptos_i18n".to_string() } else { s.clone() })
        .collect()
}

fn ends_with(segs: &[String], tail: &[&str]) -> bool {
    segs.len() >= tail.len() && segs[segs.len() - tail.len()..].iter().zip(tail).all(|(a, b)| a == b)
}

pub fn lit_num(lit: &syn::Lit, neg: bool) -> R<NumT> {
    match lit {
        syn::Lit::Int(i) => {
            let suffix = i.suffix();
            let digits = i.base10_digits();
            let ty = if suffix.is_empty() { "i32".to_string() } else { suffix.to_string() };
            let v = if neg { format!("-{}", digits) } else { digits.to_string() };
            Ok(NumT::Lit { ty, v })
        }
        syn::Lit::Float(f) => {
            let suffix = f.suffix();
            let ty = if suffix.is_empty() { "f64".to_string() } else { suffix.to_string() };
            let digits = f.base10_digits();
            let v = if neg { format!("-{}", digits) } else { digits.to_string() };
            Ok(NumT::Lit { ty, v })
        }
        _ => Err("non numeric literal".into()),
    }
}

/// Text that Rust's `Display` prints for a numeric literal of the given type (this is what the run time
/// shows for a literal key of number type).
pub fn num_display(n: &NumT) -> R<String> {
    match n {
        NumT::Lit { ty, v } => match ty.as_str() {
            "f32" => v.parse::<f32>().map(|x| x.to_string()).map_err(|e| e.to_string()),
            "f64" => v.parse::<f64>().map(|x| x.to_string()).map_err(|e| e.to_string()),
            "u8" | "u16" | "u32" | "u64" | "usize" => v.parse::<u64>().map(|x| x.to_string()).map_err(|e| e.to_string()),
            _ => v.parse::<i64>().map(|x| x.to_string()).map_err(|e| e.to_string()),
        },
        NumT::Field(_) => Err("display of symbolic number".into()),
    }
}

impl<'a> Ev<'a> {
    pub fn new(idx: &'a Index) -> Self {
        Ev {
            idx,
            env: vec![HashMap::new()],
            module: vec![],
            self_ty: None,
            // under dynamic_load + ssr every strings accessor registers its translation unit in the request's
            // RegisterCtx: sink 0 collects those registrations (per branch, like any other sink)
            sinks: if cfg!(feature = "dynamic_load") { vec![vec![]] } else { vec![] },
            depth: 0,
            index_uses: vec![],
            notes: vec![],
        }
    }

    pub fn bind(&mut self, name: &str, v: Val) {
        self.env.last_mut().unwrap().insert(name.to_string(), v);
    }

    fn lookup(&self, name: &str) -> Option<Val> {
        for scope in self.env.iter().rev() {
            if let Some(v) = scope.get(name) {
                return Some(v.clone());
            }
        }
        None
    }

    // ---------------------------------------------------------------- patterns (binding)
    fn bind_pat(&mut self, pat: &Pat, v: Val) -> R<()> {
        match pat {
            Pat::Ident(pi) => {
                self.bind(&pi.ident.to_string(), v);
                Ok(())
            }
            Pat::Type(pt) => self.bind_pat(&pt.pat, v),
            Pat::Wild(_) => Ok(()),
            Pat::Reference(r) => self.bind_pat(&r.pat, v),
            Pat::Paren(p) => self.bind_pat(&p.pat, v),
            Pat::Tuple(t) => match v {
                Val::Tuple(items) if items.len() == t.elems.len() => {
                    for (p, item) in t.elems.iter().zip(items) {
                        self.bind_pat(p, item)?;
                    }
                    Ok(())
                }
                Val::Unit if t.elems.is_empty() => Ok(()),
                other => Err(format!("tuple pattern against {:?}", short(&other))),
            },
            Pat::Struct(ps) => {
                let fields = match v {
                    Val::Struct(_, f) => f,
                    other => return Err(format!("struct pattern against {}", short(&other))),
                };
                for fp in &ps.fields {
                    let name = match &fp.member {
                        syn::Member::Named(i) => i.to_string(),
                        syn::Member::Unnamed(i) => i.index.to_string(),
                    };
                    let fv = fields.get(&name).cloned().ok_or_else(|| format!("no field {} in struct pattern", name))?;
                    self.bind_pat(&fp.pat, fv)?;
                }
                Ok(())
            }
            other => Err(format!("unsupported binding pattern {}", tok(other))),
        }
    }

    // ---------------------------------------------------------------- blocks
    pub fn eval_block(&mut self, block: &syn::Block) -> R<Val> {
        self.env.push(HashMap::new());
        let r = self.eval_stmts(&block.stmts);
        self.env.pop();
        r
    }

    fn eval_stmts(&mut self, stmts: &[Stmt]) -> R<Val> {
        let mut last = Val::Unit;
        for (i, st) in stmts.iter().enumerate() {
            let is_last = i + 1 == stmts.len();
            match st {
                Stmt::Local(l) => {
                    let init = l.init.as_ref().ok_or("let without init")?;
                    if init.diverge.is_some() {
                        return Err("let-else".into());
                    }
                    let v = self.eval(&init.expr)?;
                    self.bind_pat(&l.pat, v)?;
                    last = Val::Unit;
                }
                Stmt::Item(syn::Item::Const(c)) => {
                    let v = self.eval(&c.expr)?;
                    self.bind(&c.ident.to_string(), v);
                    last = Val::Unit;
                }
                Stmt::Item(syn::Item::Use(_)) => {}
                Stmt::Item(other) => return Err(format!("unsupported item in block: {}", tok(other))),
                Stmt::Expr(e, semi) => {
                    let v = self.eval(e)?;
                    last = if semi.is_some() || !is_last { Val::Unit } else { v };
                }
                Stmt::Macro(m) => return Err(format!("macro statement {}", tok(&m.mac.path))),
            }
        }
        Ok(last)
    }

    // ---------------------------------------------------------------- expressions
    pub fn eval(&mut self, e: &Expr) -> R<Val> {
        self.depth += 1;
        if self.depth > 400 {
            self.depth -= 1;
            return Err("evaluation depth exceeded".into());
        }
        let r = self.eval_inner(e);
        self.depth -= 1;
        r
    }

    fn eval_inner(&mut self, e: &Expr) -> R<Val> {
        match e {
            Expr::Block(b) => self.eval_block(&b.block),
            // server side of dynamic loading: futures are ready at once, `.await` is the value
            Expr::Await(a) if cfg!(feature = "dynamic_load") => self.eval(&a.base),
            Expr::Async(a) if cfg!(feature = "dynamic_load") => self.eval_block(&a.block),
            Expr::Paren(p) => self.eval(&p.expr),
            Expr::Group(g) => self.eval(&g.expr),
            Expr::Reference(r) => self.eval(&r.expr),
            Expr::Unary(u) => match u.op {
                syn::UnOp::Deref(_) => self.eval(&u.expr),
                syn::UnOp::Neg(_) => match &*u.expr {
                    Expr::Lit(l) => Ok(Val::Num(lit_num(&l.lit, true)?)),
                    other => Err(format!("negation of {}", tok(other))),
                },
                syn::UnOp::Not(_) => match self.eval(&u.expr)? {
                    Val::Cond(c) => Ok(Val::Cond(Cond::Not(Box::new(c)))),
                    Val::Bool(b) => Ok(Val::Bool(!b)),
                    other => Err(format!("! on {}", short(&other))),
                },
                _ => Err("unary op".into()),
            },
            Expr::Lit(l) => match &l.lit {
                syn::Lit::Str(s) => Ok(Val::Str(Term::Str(s.value()))),
                syn::Lit::Bool(b) => Ok(Val::Bool(b.value)),
                syn::Lit::Int(_) | syn::Lit::Float(_) => Ok(Val::Num(lit_num(&l.lit, false)?)),
                other => Err(format!("literal {}", tok(other))),
            },
            Expr::Tuple(t) => {
                if t.elems.is_empty() {
                    return Ok(Val::Unit);
                }
                let mut v = Vec::new();
                for el in &t.elems {
                    v.push(self.eval(el)?);
                }
                Ok(Val::Tuple(v))
            }
            Expr::Array(a) => {
                let mut v = Vec::new();
                for el in &a.elems {
                    v.push(self.eval(el)?);
                }
                Ok(Val::Array(v))
            }
            Expr::Closure(c) => Ok(Val::Closure(Rc::new(ClosureData {
                params: c.inputs.iter().cloned().collect(),
                body: (*c.body).clone(),
                env: self.env.clone(),
                module: self.module.clone(),
                self_ty: self.self_ty.clone(),
            }))),
            Expr::Path(p) => self.eval_path(p),
            Expr::Field(f) => {
                let base = self.eval(&f.base)?;
                let name = match &f.member {
                    syn::Member::Named(i) => i.to_string(),
                    syn::Member::Unnamed(i) => i.index.to_string(),
                };
                self.field_of(base, &name)
            }
            Expr::Call(c) => self.eval_call(c),
            Expr::MethodCall(m) => self.eval_method_call(m),
            Expr::Match(m) => self.eval_match(m),
            Expr::If(i) => self.eval_if(i),
            Expr::Binary(b) => self.eval_binary(b),
            Expr::Range(r) => {
                let s = match &r.start {
                    Some(e) => Some(self.as_num(e)?),
                    None => None,
                };
                let en = match &r.end {
                    Some(e) => Some(self.as_num(e)?),
                    None => None,
                };
                let incl = matches!(r.limits, syn::RangeLimits::Closed(_));
                Ok(Val::Range(s, en, incl))
            }
            Expr::Try(t) => {
                let v = self.eval(&t.expr)?;
                match v {
                    Val::Variant(p, mut a) if p.last().map(|s| s == "Ok").unwrap_or(false) => {
                        Ok(a.pop().unwrap_or(Val::Unit))
                    }
                    other => Err(format!("? on {}", short(&other))),
                }
            }
            Expr::Struct(s) => {
                if s.rest.is_some() {
                    return Err("struct update syntax".into());
                }
                let segs = path_segs(&s.path);
                let abs = match self.idx.resolve(&segs, &self.module, self.self_ty.as_ref()) {
                    Resolved::Item(p, rest) if rest.is_empty() => p,
                    other => return Err(format!("struct literal of {:?}", other)),
                };
                let mut fields = BTreeMap::new();
                for f in &s.fields {
                    let name = match &f.member {
                        syn::Member::Named(i) => i.to_string(),
                        syn::Member::Unnamed(i) => i.index.to_string(),
                    };
                    let v = self.eval(&f.expr)?;
                    fields.insert(name, v);
                }
                Ok(Val::Struct(abs, fields))
            }
            Expr::Macro(m) => {
                let name = path_segs(&m.mac.path);
                if ends_with(&name, &["tinystr"]) || ends_with(&name, &["locale"]) || ends_with(&name, &["langid"]) {
                    Ok(Val::Tok(format!("{}!({})", name.last().unwrap(), m.mac.tokens)))
                } else {
                    Err(format!("macro {}", name.join("::")))
                }
            }
            other => Err(format!("unsupported expression {}", head(other))),
        }
    }

    fn as_num(&mut self, e: &Expr) -> R<NumT> {
        match self.eval(e)? {
            Val::Num(n) => Ok(n),
            Val::Field(n) => Ok(NumT::Field(n)),
            other => Err(format!("expected number, got {}", short(&other))),
        }
    }

    fn field_of(&mut self, base: Val, name: &str) -> R<Val> {
        match base {
            Val::Str(Term::Unreach(w)) => Ok(Val::Str(Term::Unreach(w))),
            Val::Struct(_, f) | Val::Builder(_, f) => f.get(name).cloned().ok_or_else(|| format!("no field {}", name)),
            Val::Tuple(items) => {
                let i: usize = name.parse().map_err(|_| "tuple field")?;
                items.get(i).cloned().ok_or_else(|| "tuple index".to_string())
            }
            Val::Variant(_, items) => {
                let i: usize = name.parse().map_err(|_| "variant field")?;
                items.get(i).cloned().ok_or_else(|| "variant index".to_string())
            }
            Val::Ite(c, a, b) => {
                let x = self.field_of(*a, name)?;
                let y = self.field_of(*b, name)?;
                Ok(mk_ite(c, x, y))
            }
            other => Err(format!("field {} of {}", name, short(&other))),
        }
    }

    fn eval_path(&mut self, p: &syn::ExprPath) -> R<Val> {
        if let Some(q) = &p.qself {
            // <T as Trait>::NAME
            let ty = self
                .idx
                .resolve_type(&q.ty, &self.module, self.self_ty.as_ref())
                .ok_or_else(|| format!("qualified path on {}", tok(&*q.ty)))?;
            let segs = path_segs(&p.path);
            let trait_name = if q.position > 0 { Some(segs[q.position - 1].clone()) } else { None };
            let name = segs.last().unwrap().clone();
            return self.assoc_const(&ty, &name, trait_name.as_deref());
        }
        let segs = path_segs(&p.path);
        if segs.len() == 1 {
            if let Some(v) = self.lookup(&segs[0]) {
                return Ok(v);
            }
        }
        match self.idx.resolve(&segs, &self.module, self.self_ty.as_ref()) {
            Resolved::Item(abs, rest) => match (self.idx.items.get(&abs), rest.len()) {
                (Some(ItemKind::Enum { variants, .. }), 1) => {
                    if variants.contains(&rest[0]) {
                        Ok(Val::Loc(LocT::Const(rest[0].clone())))
                    } else {
                        Err(format!("unknown variant {}::{}", abs.join("::"), rest[0]))
                    }
                }
                (Some(ItemKind::Struct { unit: true, .. }), 0) => Ok(Val::UnitStruct(abs)),
                (Some(ItemKind::Struct { .. }), 1) => self.assoc_const(&abs, &rest[0], None),
                _ => Err(format!("path {} in value position", segs.join("::"))),
            },
            Resolved::External(segs) => {
                let n = norm_ext(&segs);
                if ends_with(&n, &["PhantomData"]) {
                    return Ok(Val::Tok("PhantomData".into()));
                }
                if segs.len() == 1 {
                    return Err(format!("unbound variable {}", segs[0]));
                }
                // enum variants / constants of external crates used as option values
                Ok(Val::Tok(n.join("::")))
            }
        }
    }

    fn assoc_const(&mut self, ty: &AbsPath, name: &str, trait_name: Option<&str>) -> R<Val> {
        let (info, c) = self
            .idx
            .find_const(ty, name, trait_name)
            .ok_or_else(|| format!("no const {} on {}", name, ty.join("::")))?;
        let expr = c.expr.clone();
        let (module, st) = (info.module.clone(), info.self_ty.clone());
        self.in_context(module, Some(st), |ev| ev.eval(&expr))
    }

    fn in_context<T>(&mut self, module: AbsPath, self_ty: Option<AbsPath>, f: impl FnOnce(&mut Self) -> R<T>) -> R<T> {
        let saved_env = std::mem::replace(&mut self.env, vec![HashMap::new()]);
        let saved_mod = std::mem::replace(&mut self.module, module);
        let saved_self = std::mem::replace(&mut self.self_ty, self_ty);
        let r = f(self);
        self.env = saved_env;
        self.module = saved_mod;
        self.self_ty = saved_self;
        r
    }

    pub fn call_fn(&mut self, info: &ImplInfo, f: &syn::ImplItemFn, recv: Option<Val>, args: Vec<Val>) -> R<Val> {
        if f.sig.asyncness.is_some() && !cfg!(feature = "dynamic_load") {
            return Err(format!("async fn {}", f.sig.ident));
        }
        let module = info.module.clone();
        let st = info.self_ty.clone();
        let block = f.block.clone();
        let inputs: Vec<syn::FnArg> = f.sig.inputs.iter().cloned().collect();
        self.in_context(module, Some(st), |ev| {
            let mut args = args.into_iter();
            for inp in &inputs {
                match inp {
                    syn::FnArg::Receiver(_) => {
                        let r = recv.clone().ok_or("missing receiver")?;
                        ev.bind("self", r);
                    }
                    syn::FnArg::Typed(pt) => {
                        let v = args.next().ok_or("missing argument")?;
                        ev.bind_pat(&pt.pat, v)?;
                    }
                }
            }
            ev.eval_block(&block)
        })
    }

    pub fn call_closure(&mut self, c: &Rc<ClosureData>, args: Vec<Val>) -> R<Val> {
        if c.params.len() != args.len() {
            return Err(format!("closure arity {} vs {}", c.params.len(), args.len()));
        }
        let saved_env = std::mem::replace(&mut self.env, c.env.clone());
        let saved_mod = std::mem::replace(&mut self.module, c.module.clone());
        let saved_self = std::mem::replace(&mut self.self_ty, c.self_ty.clone());
        self.env.push(HashMap::new());
        let mut r = Ok(Val::Unit);
        for (p, a) in c.params.iter().zip(args) {
            if let Err(e) = self.bind_pat(p, a) {
                r = Err(e);
                break;
            }
        }
        if r.is_ok() {
            r = self.eval(&c.body);
        }
        self.env = saved_env;
        self.module = saved_mod;
        self.self_ty = saved_self;
        r
    }

    pub fn call_value(&mut self, f: Val, args: Vec<Val>) -> R<Val> {
        match f {
            Val::Str(Term::Unreach(w)) => Ok(Val::Str(Term::Unreach(w))),
            Val::Closure(c) => self.call_closure(&c, args),
            Val::Field(name) => {
                if args.is_empty() {
                    // a variable given as `Fn() -> T`: calling it yields the value
                    Ok(Val::Field(name))
                } else if args.len() == 1 {
                    // a component: comp(children)
                    let child = self.render(&args[0])?;
                    Ok(Val::Str(Term::App(name, vec![Arg::T(child)])))
                } else {
                    Err("field called with >1 args".into())
                }
            }
            Val::Ite(c, a, b) => {
                let x = self.call_value(*a, args.clone())?;
                let y = self.call_value(*b, args)?;
                Ok(mk_ite(c, x, y))
            }
            other => Err(format!("call of {}", short(&other))),
        }
    }

    fn eval_args(&mut self, args: &syn::punctuated::Punctuated<Expr, syn::Token![,]>) -> R<Vec<Val>> {
        let mut v = Vec::new();
        for a in args {
            v.push(self.eval(a)?);
        }
        Ok(v)
    }

    fn generic_usizes(p: &syn::Path) -> Vec<usize> {
        let mut out = Vec::new();
        if let Some(last) = p.segments.last() {
            if let syn::PathArguments::AngleBracketed(ab) = &last.arguments {
                for a in &ab.args {
                    let s = tok(a);
                    let digits: String = s.chars().take_while(|c| c.is_ascii_digit()).collect();
                    if let Ok(n) = digits.parse::<usize>() {
                        out.push(n);
                    }
                }
            }
        }
        out
    }

    fn eval_call(&mut self, c: &syn::ExprCall) -> R<Val> {
        if let Expr::Path(p) = &*c.func {
            if let Some(q) = &p.qself {
                // <T as Trait>::method(args) on a type of the generated module
                if let Some(ty) = self.idx.resolve_type(&q.ty, &self.module, self.self_ty.as_ref()) {
                    let segs = path_segs(&p.path);
                    let trait_name = if q.position > 0 { Some(segs[q.position - 1].clone()) } else { None };
                    let name = segs.last().unwrap().clone();
                    let cands = self.idx.find_method(&ty, &name, trait_name.as_deref());
                    if let Some((info, f)) = cands.first() {
                        let args = self.eval_args(&c.args)?;
                        let has_recv = matches!(f.sig.inputs.first(), Some(syn::FnArg::Receiver(_)));
                        if has_recv {
                            let mut it = args.into_iter();
                            let recv = it.next();
                            return self.call_fn(info, f, recv, it.collect());
                        }
                        return self.call_fn(info, f, None, args);
                    }
                    if name == "register" && c.args.is_empty() && cfg!(feature = "dynamic_load") && !self.sinks.is_empty() {
                        // <Unit as TranslationUnit>::register(): library default method, RegisterCtx::register::<Unit>()
                        self.sinks[0].push(Term::Str(format!("\u{27ea}{}\u{27eb}", ty.last().cloned().unwrap_or_default())));
                        return Ok(Val::Unit);
                    }
                    if name == "default" && c.args.is_empty() {
                        if let Some(ItemKind::Enum { default: Some(d), .. }) = self.idx.items.get(&ty) {
                            // #[derive(Default)] with a #[default] variant
                            return Ok(Val::Loc(LocT::Const(d.clone())));
                        }
                    }
                }
            }
        }
        let fpath = match &*c.func {
            Expr::Path(p) if p.qself.is_none() => p,
            Expr::Paren(_) | Expr::Path(_) | Expr::Field(_) | Expr::Call(_) => {
                let f = self.eval(&c.func)?;
                let args = self.eval_args(&c.args)?;
                return self.call_value(f, args);
            }
            other => return Err(format!("call target {}", head(other))),
        };
        let segs = path_segs(&fpath.path);
        if segs.len() == 1 {
            if let Some(v) = self.lookup(&segs[0]) {
                let args = self.eval_args(&c.args)?;
                return self.call_value(v, args);
            }
        }
        match self.idx.resolve(&segs, &self.module, self.self_ty.as_ref()) {
            Resolved::Item(abs, rest) => {
                match (self.idx.items.get(&abs).cloned(), rest.len()) {
                    (Some(ItemKind::Struct { fields, tuple: true, .. }), 0) => {
                        let args = self.eval_args(&c.args)?;
                        if args.len() != fields.len() {
                            return Err("tuple struct arity".into());
                        }
                        Ok(Val::Struct(abs, fields.into_iter().zip(args).collect()))
                    }
                    (Some(ItemKind::Struct { derives_typed_builder, .. }), 1) => {
                        let args = self.eval_args(&c.args)?;
                        let cands = self.idx.find_method(&abs, &rest[0], None);
                        if let Some((info, f)) = cands.first() {
                            let has_recv = matches!(f.sig.inputs.first(), Some(syn::FnArg::Receiver(_)));
                            if has_recv {
                                let mut it = args.into_iter();
                                let recv = it.next();
                                return self.call_fn(info, f, recv, it.collect());
                            }
                            return self.call_fn(info, f, None, args);
                        }
                        if rest[0] == "builder" && derives_typed_builder && args.is_empty() {
                            return Ok(Val::Builder(abs, BTreeMap::new()));
                        }
                        Err(format!("no fn {} on {}", rest[0], abs.join("::")))
                    }
                    _ => Err(format!("call of path {}", segs.join("::"))),
                }
            }
            Resolved::External(segs) => {
                let n = norm_ext(&segs);
                let generics = Self::generic_usizes(&fpath.path);
                self.external_call(&n, generics, &c.args)
            }
        }
    }

    fn external_call(
        &mut self,
        n: &[String],
        generics: Vec<usize>,
        argexprs: &syn::punctuated::Punctuated<Expr, syn::Token![,]>,
    ) -> R<Val> {
        let last = n.last().map(|s| s.as_str()).unwrap_or("");
        // --- closures passed to DisplayComponent::fmt must be run against a fresh sink
        if ends_with(n, &["DisplayComponent", "fmt"]) {
            if argexprs.len() != 3 {
                return Err("DisplayComponent::fmt arity".into());
            }
            let comp = self.eval(&argexprs[0])?;
            let outer = self.eval(&argexprs[1])?;
            let clos = self.eval(&argexprs[2])?;
            let (outer_id, name) = match (outer, comp) {
                (Val::Sink(i), Val::Field(name)) => (i, name),
                (a, b) => return Err(format!("DisplayComponent::fmt({}, {})", short(&b), short(&a))),
            };
            let inner_id = self.sinks.len();
            self.sinks.push(vec![]);
            self.call_value(clos, vec![Val::Sink(inner_id)])?;
            let inner = Term::cat(std::mem::take(&mut self.sinks[inner_id]));
            self.sinks[outer_id].push(Term::App(name, vec![Arg::T(inner)]));
            return Ok(ok_unit());
        }
        let args = self.eval_args(argexprs)?;
        if ends_with(n, &["index_translations"]) {
            if generics.len() != 2 || args.len() != 1 {
                return Err("index_translations shape".into());
            }
            let (nn, ii) = (generics[0], generics[1]);
            match &args[0] {
                Val::Array(items) => {
                    self.index_uses.push((nn, ii, items.len()));
                    if nn != items.len() {
                        return Ok(Val::Str(Term::Unreach(format!(
                            "index_translations::<{},{}> on a table of {} strings",
                            nn,
                            ii,
                            items.len()
                        ))));
                    }
                    match items.get(ii) {
                        Some(v) => Ok(v.clone()),
                        None => Ok(Val::Str(Term::Unreach(format!("index {} out of bounds {}", ii, nn)))),
                    }
                }
                other => Err(format!("index_translations on {}", short(other))),
            }
        } else if ends_with(n, &["LitWrapper", "new"]) || ends_with(n, &["LitWrapperFut", "new_not_fut"]) {
            Ok(Val::Variant(vec!["LitWrapper".into()], args))
        } else if ends_with(n, &["Clone", "clone"]) || ends_with(n, &["InterpolationStringBuilder", "check"])
            || ends_with(n, &["ToChildren", "to_children"]) || ends_with(n, &["__private", "intern"])
        {
            args.into_iter().next().ok_or_else(|| "missing arg".to_string())
        } else if ends_with(n, &["Display", "fmt"]) {
            if args.len() != 2 {
                return Err("Display::fmt arity".into());
            }
            let t = self.render(&args[0])?;
            match &args[1] {
                Val::Sink(i) => {
                    self.sinks[*i].push(t);
                    Ok(ok_unit())
                }
                other => Err(format!("Display::fmt into {}", short(other))),
            }
        } else if ends_with(n, &["get_plural_rules"]) {
            match (&args[0], &args[1]) {
                (Val::Loc(l), Val::Tok(rule)) => {
                    Ok(Val::PluralRules(l.clone(), rule.rsplit("::").next().unwrap_or("").to_string()))
                }
                (a, b) => Err(format!("get_plural_rules({}, {})", short(a), short(b))),
            }
        } else if last.starts_with("format_") && n.iter().any(|s| s == "__private") {
            // format_<X>_to_view(locale, var, opts..) / format_<X>_to_display(..) / format_<X>_to_formatter(f, locale, var, opts..)
            let (kind, flavour) = match last.rsplit_once("_to_") {
                Some((k, f)) => (k.to_string(), f.to_string()),
                None => return Err(format!("formatter fn {}", last)),
            };
            let mut it = args.into_iter();
            let sink = if flavour == "formatter" {
                match it.next() {
                    Some(Val::Sink(i)) => Some(i),
                    other => return Err(format!("formatter sink {:?}", other.map(|v| short(&v)))),
                }
            } else {
                None
            };
            let mut targs = Vec::new();
            for a in it {
                targs.push(match a {
                    Val::Loc(l) => Arg::Loc(l),
                    Val::Field(nm) => Arg::T(Term::Var(nm)),
                    Val::Tok(s) => Arg::Tok(s),
                    Val::Variant(p, inner) => Arg::Tok(format!(
                        "{}({})",
                        p.join("::"),
                        inner.iter().map(short).collect::<Vec<_>>().join(",")
                    )),
                    other => return Err(format!("formatter arg {}", short(&other))),
                });
            }
            let t = Term::App(format!("fmt_{}", kind.trim_start_matches("format_")), targs);
            match sink {
                Some(i) => {
                    self.sinks[i].push(t);
                    Ok(ok_unit())
                }
                None => Ok(Val::Str(t)),
            }
        } else if ends_with(n, &["RangeBounds", "contains"]) {
            let x = match &args[1] {
                Val::Num(x) => x.clone(),
                Val::Field(f) => NumT::Field(f.clone()),
                other => return Err(format!("contains item {}", short(other))),
            };
            match &args[0] {
                Val::Range(s, e, incl) => {
                    let mut cs = Vec::new();
                    if let Some(s) = s {
                        cs.push(Cond::Cmp("le".into(), s.clone(), x.clone()));
                    }
                    if let Some(e) = e {
                        cs.push(Cond::Cmp(if *incl { "le".into() } else { "lt".into() }, x.clone(), e.clone()));
                    }
                    Ok(Val::Cond(if cs.is_empty() { Cond::True } else { Cond::And(cs) }))
                }
                other => Err(format!("contains on {}", short(other))),
            }
        } else if ends_with(n, &["Locale", "get_keys"]) || ends_with(n, &["I18nContext", "get_keys"])
            || ends_with(n, &["I18nContext", "get_keys_untracked"])
        {
            // library meaning: <L::Keys as LocaleKeys>::from_locale(locale)
            let loc = args.into_iter().next().ok_or("get_keys arity")?;
            let mut found = None;
            for info in &self.idx.impls {
                if info.trait_name.as_deref() == Some("LocaleKeys") {
                    for it in &info.imp.items {
                        if let syn::ImplItem::Fn(f) = it {
                            if f.sig.ident == "from_locale" {
                                // the top level keys type is the one living in the same module as the Locale enum
                                if found.is_none() || info.module.len() < found.as_ref().map(|(i, _): &(&ImplInfo, _)| i.module.len()).unwrap() {
                                    found = Some((info, f));
                                }
                            }
                        }
                    }
                }
            }
            let (info, f) = found.ok_or("no LocaleKeys impl")?;
            self.call_fn(info, f, None, vec![loc])
        } else if ends_with(n, &["Locale", "as_str"]) && args.len() == 1 {
            // trait call `leptos_i18n::Locale::as_str(l)`: dispatches to the generated `impl Locale for <enum>`
            let mut found = None;
            for info in &self.idx.impls {
                if info.trait_name.as_deref() == Some("Locale") {
                    for it in &info.imp.items {
                        if let syn::ImplItem::Fn(f) = it {
                            if f.sig.ident == "as_str" {
                                found = Some((info, f));
                            }
                        }
                    }
                }
            }
            let (info, f) = found.ok_or("no impl Locale with as_str")?;
            let recv = args.into_iter().next();
            self.call_fn(info, f, recv, vec![])
        } else if n.len() == 1 && (last == "Ok" || last == "Err" || last == "Some") {
            Ok(Val::Variant(vec![last.to_string()], args))
        } else if n.iter().any(|s| s == "either") {
            // leptos Either / EitherOfN::X(v): transparent for rendering
            Ok(Val::Variant(n.to_vec(), args))
        } else if ends_with(n, &["CurrencyCode"]) {
            Ok(Val::Tok(format!("CurrencyCode({})", args.iter().map(short).collect::<Vec<_>>().join(","))))
        } else {
            Err(format!("unknown external function {}", n.join("::")))
        }
    }

    fn eval_method_call(&mut self, m: &syn::ExprMethodCall) -> R<Val> {
        let recv = self.eval(&m.receiver)?;
        let args = self.eval_args(&m.args)?;
        self.method(recv, &m.method.to_string(), args)
    }

    pub fn method(&mut self, recv: Val, name: &str, args: Vec<Val>) -> R<Val> {
        match recv {
            Val::Str(Term::Unreach(w)) => Ok(Val::Str(Term::Unreach(w))),
            Val::Ite(c, a, b) => {
                let x = self.method(*a, name, args.clone())?;
                let y = self.method(*b, name, args)?;
                Ok(mk_ite(c, x, y))
            }
            Val::Struct(ty, fields) => {
                let cands = self.idx.find_method(&ty, name, None);
                let pick = cands.iter().find(|(i, _)| i.trait_name.is_none()).or(cands.first()).copied();
                if let Some((info, f)) = pick {
                    return self.call_fn(info, f, Some(Val::Struct(ty, fields)), args);
                }
                if name == "to_string" {
                    let t = self.render_display(&Val::Struct(ty, fields))?;
                    return Ok(Val::Str(t));
                }
                if name == "clone" {
                    return Ok(Val::Struct(ty, fields));
                }
                Err(format!("no method {} on {}", name, ty.join("::")))
            }
            Val::Builder(ty, mut fields) => {
                if name == "build" {
                    // typed_builder: every declared field must have been set
                    if let Some(ItemKind::Struct { fields: decl, .. }) = self.idx.items.get(&ty) {
                        for d in decl {
                            if !fields.contains_key(d) {
                                return Err(format!("build() with unset field {}", d));
                            }
                        }
                    }
                    return Ok(Val::Struct(ty, fields));
                }
                // methods generated for `<Name>Builder<..>`
                let module: AbsPath = ty[..ty.len() - 1].to_vec();
                let bname = format!("{}Builder", ty.last().unwrap());
                let mut found = None;
                for (m, n, imp) in &self.idx.foreign_impls {
                    if m == &module && n == &bname {
                        for it in &imp.items {
                            if let syn::ImplItem::Fn(f) = it {
                                if f.sig.ident == name {
                                    found = Some(f.clone());
                                }
                            }
                        }
                    }
                }
                if let Some(f) = found {
                    if f.sig.asyncness.is_some() && !cfg!(feature = "dynamic_load") {
                        return Err("async builder fn".into());
                    }
                    let block = f.block.clone();
                    let recv = Val::Builder(ty.clone(), fields);
                    return self.in_context(module, Some(ty), |ev| {
                        ev.bind("self", recv);
                        ev.eval_block(&block)
                    });
                }
                // setter
                let known = match self.idx.items.get(&ty) {
                    Some(ItemKind::Struct { fields: decl, .. }) => decl.iter().any(|d| d == name),
                    _ => false,
                };
                if known && args.len() == 1 {
                    if fields.contains_key(name) {
                        return Err(format!("field {} set twice", name));
                    }
                    fields.insert(name.to_string(), args.into_iter().next().unwrap());
                    return Ok(Val::Builder(ty, fields));
                }
                Err(format!("builder method {} on {}", name, ty.join("::")))
            }
            Val::Variant(p, inner) if p.last().map(|s| s == "LitWrapper").unwrap_or(false) => match name {
                "builder" | "display_builder" | "build" => Ok(Val::Variant(p, inner)),
                "into_view" | "inner" | "build_display" => Ok(inner.into_iter().next().unwrap_or(Val::Unit)),
                "build_string" => {
                    let v = inner.into_iter().next().unwrap_or(Val::Unit);
                    Ok(Val::Str(self.render(&v)?))
                }
                _ => Err(format!("LitWrapper::{}", name)),
            },
            Val::PluralRules(loc, rule) if name == "category_for" => {
                let x = match args.into_iter().next() {
                    Some(Val::Field(n)) => NumT::Field(n),
                    Some(Val::Num(n)) => n,
                    other => return Err(format!("category_for({:?})", other.map(|v| short(&v)))),
                };
                Ok(Val::Cat(CatT { loc, rule, x }))
            }
            Val::Str(t) if name == "trim" && args.is_empty() => Ok(Val::Str(Term::App("trim".into(), vec![Arg::T(t)]))),
            v if name == "clone" => Ok(v),
            v if name == "into_view" => Ok(v),
            v if name == "to_string" => Ok(Val::Str(self.render(&v)?)),
            other => Err(format!("method {} on {}", name, short(&other))),
        }
    }

    // ---------------------------------------------------------------- control flow
    fn pat_cond(&mut self, pat: &Pat, scrut: &Val) -> R<Cond> {
        match pat {
            Pat::Wild(_) => Ok(Cond::True),
            Pat::Paren(p) => self.pat_cond(&p.pat, scrut),
            Pat::Or(o) => {
                let mut v = Vec::new();
                for c in &o.cases {
                    v.push(self.pat_cond(c, scrut)?);
                }
                Ok(or_conds(v))
            }
            Pat::Path(pp) => {
                let segs = path_segs(&pp.path);
                let variant = segs.last().unwrap().clone();
                match scrut {
                    Val::Loc(l) => {
                        // must resolve to the generated Locale enum
                        match self.idx.resolve(&segs, &self.module, self.self_ty.as_ref()) {
                            Resolved::Item(abs, rest) if rest.len() == 1 => match self.idx.items.get(&abs) {
                                Some(ItemKind::Enum { variants, .. }) if variants.contains(&rest[0]) => {}
                                _ => return Err(format!("pattern path {}", segs.join("::"))),
                            },
                            other => return Err(format!("pattern path {:?}", other)),
                        }
                        match l {
                            LocT::Sym => Ok(Cond::LocIn(vec![variant])),
                            LocT::Const(c) => Ok(if *c == variant { Cond::True } else { Cond::False }),
                        }
                    }
                    Val::Cat(c) => {
                        if !segs.iter().any(|s| s == "PluralCategory") {
                            return Err(format!("category pattern {}", segs.join("::")));
                        }
                        Ok(Cond::CatEq(c.clone(), variant))
                    }
                    other => Err(format!("path pattern against {}", short(other))),
                }
            }
            Pat::Ident(pi) if pi.subpat.is_none() => {
                // could be a binding; generated code never binds in match arms
                Err(format!("identifier pattern {}", pi.ident))
            }
            Pat::Lit(l) if matches!(l.lit, syn::Lit::Str(_)) => {
                let lit = match &l.lit {
                    syn::Lit::Str(s) => s.value(),
                    _ => unreachable!(),
                };
                match scrut {
                    Val::Str(Term::Str(s)) => Ok(if *s == lit { Cond::True } else { Cond::False }),
                    Val::Str(t) => Ok(Cond::StrEq(Box::new(t.clone()), lit)),
                    other => Err(format!("string pattern against {}", short(other))),
                }
            }
            Pat::Lit(l) => {
                let x = scrut_num(scrut)?;
                let n = self.pat_num(&Expr::Lit(l.clone()))?;
                Ok(Cond::Cmp("eq".into(), x, n))
            }
            Pat::Range(r) => {
                let x = scrut_num(scrut)?;
                let mut cs = Vec::new();
                if let Some(s) = &r.start {
                    let n = self.pat_num(s)?;
                    cs.push(Cond::Cmp("le".into(), n, x.clone()));
                }
                if let Some(e) = &r.end {
                    let n = self.pat_num(e)?;
                    let incl = matches!(r.limits, syn::RangeLimits::Closed(_));
                    cs.push(Cond::Cmp(if incl { "le".into() } else { "lt".into() }, x.clone(), n));
                }
                Ok(if cs.is_empty() { Cond::True } else { Cond::And(cs) })
            }
            other => Err(format!("unsupported match pattern {}", tok(other))),
        }
    }

    fn pat_num(&mut self, e: &Expr) -> R<NumT> {
        match e {
            Expr::Lit(l) => lit_num(&l.lit, false),
            Expr::Unary(u) if matches!(u.op, syn::UnOp::Neg(_)) => match &*u.expr {
                Expr::Lit(l) => lit_num(&l.lit, true),
                _ => Err("pattern number".into()),
            },
            _ => Err(format!("pattern number {}", tok(e))),
        }
    }

    fn eval_match(&mut self, m: &syn::ExprMatch) -> R<Val> {
        let scrut = self.eval(&m.expr)?;
        if let Val::Ite(c, a, b) = scrut {
            return Err(format!("match on conditional value ({:?}, {}, {})", c, short(&a), short(&b)));
        }
        let mut branches: Vec<(Cond, &Expr)> = Vec::new();
        for arm in &m.arms {
            if arm.guard.is_some() {
                return Err("match guard".into());
            }
            let c = self.pat_cond(&arm.pat, &scrut)?;
            branches.push((c, &*arm.body));
        }
        self.eval_branches(branches, "non-exhaustive match")
    }

    fn eval_if(&mut self, i: &syn::ExprIf) -> R<Val> {
        let c = match self.eval(&i.cond)? {
            Val::Cond(c) => c,
            Val::Bool(b) => {
                if b {
                    Cond::True
                } else {
                    Cond::False
                }
            }
            other => return Err(format!("if condition {}", short(&other))),
        };
        let then_expr = Expr::Block(syn::ExprBlock { attrs: vec![], label: None, block: i.then_branch.clone() });
        let unit_expr: Expr = syn::parse_quote!(());
        let else_expr: &Expr = match &i.else_branch {
            Some((_, e)) => e,
            None => &unit_expr,
        };
        self.eval_branches(vec![(c, &then_expr), (Cond::True, else_expr)], "if")
    }

    /// First-match semantics over (condition, body) pairs; side effects on sinks are captured per branch.
    fn eval_branches(&mut self, branches: Vec<(Cond, &Expr)>, what: &str) -> R<Val> {
        let nsinks = self.sinks.len();
        let base: Vec<usize> = self.sinks.iter().map(|s| s.len()).collect();
        let mut results: Vec<(Cond, Val, Vec<Vec<Term>>)> = Vec::new();
        for (c, body) in branches {
            if c == Cond::False {
                continue;
            }
            let v = self.eval(body)?;
            let mut em = Vec::new();
            for i in 0..nsinks {
                em.push(self.sinks[i].split_off(base[i]));
            }
            let is_true = c == Cond::True;
            results.push((c, v, em));
            if is_true {
                break;
            }
        }
        // fold from the end
        let exhaustive = results.last().map(|(c, _, _)| *c == Cond::True).unwrap_or(false);
        let mut val: Option<Val> = None;
        let mut ems: Vec<Option<Term>> = vec![None; nsinks];
        let any_em: Vec<bool> = (0..nsinks).map(|i| results.iter().any(|(_, _, em)| !em[i].is_empty())).collect();
        if !exhaustive {
            val = Some(Val::Str(Term::Unreach(what.to_string())));
            for i in 0..nsinks {
                if any_em[i] {
                    ems[i] = Some(Term::Unreach(what.to_string()));
                }
            }
        }
        for (c, v, em) in results.into_iter().rev() {
            val = Some(match val {
                None => v,
                Some(rest) => mk_ite(c.clone(), v, rest),
            });
            for (i, e) in em.into_iter().enumerate() {
                if !any_em[i] {
                    continue;
                }
                let t = Term::cat(e);
                ems[i] = Some(match ems[i].take() {
                    None => t,
                    Some(rest) => {
                        if t == rest {
                            t
                        } else {
                            Term::Ite(c.clone(), Box::new(t), Box::new(rest))
                        }
                    }
                });
            }
        }
        for (i, e) in ems.into_iter().enumerate() {
            if let Some(t) = e {
                self.sinks[i].push(t);
            }
        }
        val.ok_or_else(|| "empty match".to_string())
    }

    fn eval_binary(&mut self, b: &syn::ExprBinary) -> R<Val> {
        use syn::BinOp::*;
        match b.op {
            Or(_) | And(_) => {
                let l = self.eval(&b.left)?;
                let r = self.eval(&b.right)?;
                let (l, r) = (to_cond(l)?, to_cond(r)?);
                Ok(Val::Cond(if matches!(b.op, Or(_)) { or_conds(vec![l, r]) } else { Cond::And(vec![l, r]) }))
            }
            Eq(_) | Ne(_) | Lt(_) | Le(_) | Gt(_) | Ge(_) => {
                let l = self.as_num(&b.left)?;
                let r = self.as_num(&b.right)?;
                let c = match b.op {
                    Eq(_) => Cond::Cmp("eq".into(), l, r),
                    Ne(_) => Cond::Not(Box::new(Cond::Cmp("eq".into(), l, r))),
                    Lt(_) => Cond::Cmp("lt".into(), l, r),
                    Le(_) => Cond::Cmp("le".into(), l, r),
                    Gt(_) => Cond::Cmp("lt".into(), r, l),
                    _ => Cond::Cmp("le".into(), r, l),
                };
                Ok(Val::Cond(c))
            }
            _ => Err(format!("binary operator {}", tok(&b.op))),
        }
    }

    // ---------------------------------------------------------------- rendering
    /// Text denoted by a value in view / Display position.
    pub fn render(&mut self, v: &Val) -> R<Term> {
        match v {
            Val::Unit => Ok(Term::Str(String::new())),
            Val::Str(t) => Ok(t.clone()),
            Val::Field(n) => Ok(Term::Var(n.clone())),
            Val::Num(n) => Ok(Term::Str(num_display(n)?)),
            Val::Bool(b) => Ok(Term::Str(b.to_string())),
            Val::Tuple(items) => {
                let mut out = Vec::new();
                for i in items {
                    out.push(self.render(i)?);
                }
                Ok(Term::cat(out))
            }
            Val::Closure(c) => {
                if !c.params.is_empty() {
                    return Err("render of closure with parameters".into());
                }
                let r = self.call_closure(c, vec![])?;
                self.render(&r)
            }
            Val::Variant(p, inner) if p.iter().any(|s| s == "either") && inner.len() == 1 => self.render(&inner[0]),
            Val::Variant(p, inner) if p.last().map(|s| s == "LitWrapper").unwrap_or(false) && inner.len() == 1 => {
                self.render(&inner[0])
            }
            Val::Ite(c, a, b) => {
                let x = self.render(a)?;
                let y = self.render(b)?;
                Ok(if x == y { x } else { Term::Ite(c.clone(), Box::new(x), Box::new(y)) })
            }
            Val::Struct(..) => self.render_display(v),
            other => Err(format!("cannot render {}", short(other))),
        }
    }

    /// Translation units registered so far (dynamic_load + ssr), as a term over the locale.
    pub fn registered(&mut self) -> Term {
        if cfg!(feature = "dynamic_load") && !self.sinks.is_empty() {
            Term::cat(self.sinks[0].clone())
        } else {
            Term::Str(String::new())
        }
    }

    pub fn render_display(&mut self, v: &Val) -> R<Term> {
        let ty = match v {
            Val::Struct(ty, _) => ty.clone(),
            other => return Err(format!("Display of {}", short(other))),
        };
        let cands = self.idx.find_method(&ty, "fmt", Some("Display"));
        let (info, f) = cands.first().copied().ok_or_else(|| format!("no Display impl for {}", ty.join("::")))?;
        let id = self.sinks.len();
        self.sinks.push(vec![]);
        self.call_fn(info, f, Some(v.clone()), vec![Val::Sink(id)])?;
        Ok(Term::cat(std::mem::take(&mut self.sinks[id])))
    }
}

fn scrut_num(v: &Val) -> R<NumT> {
    match v {
        Val::Num(n) => Ok(n.clone()),
        Val::Field(n) => Ok(NumT::Field(n.clone())),
        other => Err(format!("numeric pattern against {}", short(other))),
    }
}

fn to_cond(v: Val) -> R<Cond> {
    match v {
        Val::Cond(c) => Ok(c),
        Val::Bool(true) => Ok(Cond::True),
        Val::Bool(false) => Ok(Cond::False),
        other => Err(format!("expected condition, got {}", short(&other))),
    }
}

fn or_conds(v: Vec<Cond>) -> Cond {
    // merge LocIn sets, keep the rest
    let mut locs: Vec<String> = Vec::new();
    let mut rest: Vec<Cond> = Vec::new();
    for c in v {
        match c {
            Cond::LocIn(l) => locs.extend(l),
            Cond::True => return Cond::True,
            Cond::False => {}
            Cond::Or(inner) => rest.extend(inner),
            c => rest.push(c),
        }
    }
    if !locs.is_empty() {
        rest.insert(0, Cond::LocIn(locs));
    }
    match rest.len() {
        0 => Cond::False,
        1 => rest.pop().unwrap(),
        _ => Cond::Or(rest),
    }
}

pub fn mk_ite(c: Cond, a: Val, b: Val) -> Val {
    if a == b {
        return a;
    }
    match c {
        Cond::True => a,
        Cond::False => b,
        c => Val::Ite(c, Box::new(a), Box::new(b)),
    }
}

fn ok_unit() -> Val {
    Val::Variant(vec!["Ok".into()], vec![Val::Unit])
}

pub fn tok<T: quote::ToTokens>(t: &T) -> String {
    let s = t.to_token_stream().to_string();
    if s.len() > 120 {
        format!("{}…", &s[..s.char_indices().take_while(|(i, _)| *i < 120).last().map(|(i, c)| i + c.len_utf8()).unwrap_or(0)])
    } else {
        s
    }
}

fn head(e: &Expr) -> String {
    let s = tok(e);
    s
}

pub fn short(v: &Val) -> String {
    match v {
        Val::Unit => "()".into(),
        Val::Str(_) => "str".into(),
        Val::Num(n) => format!("{:?}", n),
        Val::Bool(b) => b.to_string(),
        Val::Field(n) => format!("field {}", n),
        Val::Loc(l) => format!("{:?}", l),
        Val::Variant(p, a) => format!("{}({})", p.join("::"), a.iter().map(short).collect::<Vec<_>>().join(",")),
        Val::Struct(t, _) => format!("struct {}", t.join("::")),
        Val::Builder(t, _) => format!("builder {}", t.join("::")),
        Val::Tuple(_) => "tuple".into(),
        Val::Array(_) => "array".into(),
        Val::Closure(_) => "closure".into(),
        Val::Ite(..) => "ite".into(),
        Val::Sink(_) => "sink".into(),
        Val::PluralRules(..) => "plural_rules".into(),
        Val::Cat(_) => "category".into(),
        Val::Cond(_) => "cond".into(),
        Val::Range(..) => "range".into(),
        Val::Tok(s) => s.clone(),
        Val::UnitStruct(t) => format!("unit {}", t.join("::")),
    }
}
