//! Index of the generated items (modules, structs, enums, type aliases, impls) with module-aware
//! path resolution.
use std::collections::HashMap;
use syn::{Item, ItemImpl};

pub type AbsPath = Vec<String>;

#[derive(Clone, Debug)]
pub enum ItemKind {
    Mod,
    Struct { fields: Vec<String>, tuple: bool, unit: bool, derives_typed_builder: bool },
    Enum { variants: Vec<String>, default: Option<String> },
    Alias { target: syn::Type },
}

pub struct ImplInfo {
    pub module: AbsPath,
    pub self_ty: AbsPath,
    pub self_ty_syn: syn::Type,
    pub trait_name: Option<String>,
    pub imp: ItemImpl,
}

#[derive(Default)]
pub struct Index {
    pub items: HashMap<AbsPath, ItemKind>,
    /// module -> alias name -> (path segments as written, relative to that module)
    pub uses: HashMap<AbsPath, HashMap<String, Vec<String>>>,
    pub impls: Vec<ImplInfo>,
    /// impls whose self type could not be resolved to a generated item (e.g. `X_builderBuilder<..>`),
    /// keyed by (module, last segment name)
    pub foreign_impls: Vec<(AbsPath, String, ItemImpl)>,
}

#[derive(Clone, Debug, PartialEq)]
pub enum Resolved {
    /// a generated item (module, struct, enum, alias already followed) + remaining segments
    Item(AbsPath, Vec<String>),
    /// not a generated item: external path with `l_i18n_crate` normalised to `leptos_i18n`
    External(Vec<String>),
}

fn flatten_use(tree: &syn::UseTree, prefix: &mut Vec<String>, out: &mut Vec<(String, Vec<String>)>) {
    match tree {
        syn::UseTree::Path(p) => {
            prefix.push(p.ident.to_string());
            flatten_use(&p.tree, prefix, out);
            prefix.pop();
        }
        syn::UseTree::Name(n) => {
            let mut full = prefix.clone();
            full.push(n.ident.to_string());
            out.push((n.ident.to_string(), full));
        }
        syn::UseTree::Rename(r) => {
            let mut full = prefix.clone();
            full.push(r.ident.to_string());
            out.push((r.rename.to_string(), full));
        }
        syn::UseTree::Group(g) => {
            for t in &g.items {
                flatten_use(t, prefix, out);
            }
        }
        syn::UseTree::Glob(_) => {}
    }
}

fn has_typed_builder(attrs: &[syn::Attribute]) -> bool {
    attrs.iter().any(|a| {
        a.path().is_ident("derive") && quote::ToTokens::to_token_stream(a).to_string().contains("TypedBuilder")
    })
}

impl Index {
    pub fn build(file: &syn::File) -> Index {
        let mut idx = Index::default();
        let mut pending_impls: Vec<(AbsPath, ItemImpl)> = Vec::new();
        idx.items.insert(vec![], ItemKind::Mod);
        idx.walk(&file.items, &mut vec![], &mut pending_impls);
        for (module, imp) in pending_impls {
            let ty = (*imp.self_ty).clone();
            let trait_name = imp
                .trait_
                .as_ref()
                .map(|(_, p, _)| p.segments.last().map(|s| s.ident.to_string()).unwrap_or_default());
            match idx.resolve_type(&ty, &module, None) {
                Some(abs) => idx.impls.push(ImplInfo {
                    module,
                    self_ty: abs,
                    self_ty_syn: ty,
                    trait_name,
                    imp,
                }),
                None => {
                    let name = match &ty {
                        syn::Type::Path(p) => p.path.segments.last().map(|s| s.ident.to_string()).unwrap_or_default(),
                        _ => String::new(),
                    };
                    idx.foreign_impls.push((module, name, imp));
                }
            }
        }
        idx
    }

    fn walk(&mut self, items: &[Item], cur: &mut AbsPath, pending: &mut Vec<(AbsPath, ItemImpl)>) {
        for item in items {
            match item {
                Item::Mod(m) => {
                    cur.push(m.ident.to_string());
                    self.items.insert(cur.clone(), ItemKind::Mod);
                    if let Some((_, items)) = &m.content {
                        self.walk(items, cur, pending);
                    }
                    cur.pop();
                }
                Item::Struct(s) => {
                    let mut p = cur.clone();
                    p.push(s.ident.to_string());
                    let (fields, tuple, unit) = match &s.fields {
                        syn::Fields::Named(n) => (
                            n.named.iter().map(|f| f.ident.as_ref().unwrap().to_string()).collect(),
                            false,
                            false,
                        ),
                        syn::Fields::Unnamed(u) => ((0..u.unnamed.len()).map(|i| i.to_string()).collect(), true, false),
                        syn::Fields::Unit => (vec![], false, true),
                    };
                    self.items.insert(
                        p,
                        ItemKind::Struct { fields, tuple, unit, derives_typed_builder: has_typed_builder(&s.attrs) },
                    );
                }
                Item::Enum(e) => {
                    let mut p = cur.clone();
                    p.push(e.ident.to_string());
                    let variants = e.variants.iter().map(|v| v.ident.to_string()).collect();
                    let default = e
                        .variants
                        .iter()
                        .find(|v| v.attrs.iter().any(|a| a.path().is_ident("default")))
                        .map(|v| v.ident.to_string());
                    self.items.insert(p, ItemKind::Enum { variants, default });
                }
                Item::Type(t) => {
                    let mut p = cur.clone();
                    p.push(t.ident.to_string());
                    self.items.insert(p, ItemKind::Alias { target: (*t.ty).clone() });
                }
                Item::Use(u) => {
                    let mut out = Vec::new();
                    flatten_use(&u.tree, &mut vec![], &mut out);
                    let m = self.uses.entry(cur.clone()).or_default();
                    for (name, full) in out {
                        m.insert(name, full);
                    }
                }
                Item::Impl(i) => pending.push((cur.clone(), i.clone())),
                _ => {}
            }
        }
    }

    /// Resolve a path written in module `cur` (with `Self` = `self_ty`).
    pub fn resolve(&self, segs: &[String], cur: &AbsPath, self_ty: Option<&AbsPath>) -> Resolved {
        self.resolve_depth(segs, cur, self_ty, 0)
    }

    fn resolve_depth(&self, segs: &[String], cur: &AbsPath, self_ty: Option<&AbsPath>, depth: usize) -> Resolved {
        if depth > 32 || segs.is_empty() {
            return Resolved::External(segs.to_vec());
        }
        let mut base = cur.clone();
        let mut i = 0;
        let mut anchored = false;
        while i < segs.len() {
            match segs[i].as_str() {
                "super" => {
                    base.pop();
                    anchored = true;
                    i += 1;
                }
                "self" => {
                    anchored = true;
                    i += 1;
                }
                "crate" => {
                    base.clear();
                    anchored = true;
                    i += 1;
                }
                _ => break,
            }
        }
        if i >= segs.len() {
            return Resolved::Item(base, vec![]);
        }
        if segs[i] == "Self" {
            if let Some(st) = self_ty {
                return Resolved::Item(st.clone(), segs[i + 1..].to_vec());
            }
        }
        // try as item in base
        let mut p = base.clone();
        p.push(segs[i].clone());
        if self.items.contains_key(&p) {
            return self.descend(p, &segs[i + 1..], depth);
        }
        {
            let _ = anchored;
            if let Some(target) = self.uses.get(&base).and_then(|m| m.get(&segs[i])) {
                let mut full = target.clone();
                full.extend_from_slice(&segs[i + 1..]);
                // guard against `use leptos_i18n as l_i18n_crate` (extern crate: unresolvable) looping
                if target.len() == 1 && target[0] != segs[i] && !self.items.contains_key(&{
                    let mut q = base.clone();
                    q.push(target[0].clone());
                    q
                }) {
                    return Resolved::External(full);
                }
                if *target == vec![segs[i].clone()] {
                    return Resolved::External(full);
                }
                return self.resolve_depth(&full, &base, self_ty, depth + 1);
            }
        }
        Resolved::External(segs.to_vec())
    }

    fn descend(&self, mut p: AbsPath, rest: &[String], depth: usize) -> Resolved {
        let mut k = 0;
        loop {
            match self.items.get(&p) {
                Some(ItemKind::Mod) if k < rest.len() => {
                    let mut q = p.clone();
                    q.push(rest[k].clone());
                    if self.items.contains_key(&q) {
                        p = q;
                        k += 1;
                    } else {
                        // maybe a re-export through `use` in that module
                        if let Some(target) = self.uses.get(&p).and_then(|m| m.get(&rest[k])) {
                            let mut full = target.clone();
                            full.extend_from_slice(&rest[k + 1..]);
                            return self.resolve_depth(&full, &p, None, depth + 1);
                        }
                        return Resolved::External({
                            let mut v = p.clone();
                            v.extend_from_slice(&rest[k..]);
                            v
                        });
                    }
                }
                Some(ItemKind::Alias { target }) => {
                    let module: AbsPath = p[..p.len() - 1].to_vec();
                    match self.resolve_type(target, &module, None) {
                        Some(abs) => {
                            p = abs;
                        }
                        None => return Resolved::External(p),
                    }
                }
                _ => return Resolved::Item(p, rest[k..].to_vec()),
            }
        }
    }

    pub fn resolve_type(&self, ty: &syn::Type, cur: &AbsPath, self_ty: Option<&AbsPath>) -> Option<AbsPath> {
        match ty {
            syn::Type::Path(tp) if tp.qself.is_none() => {
                let segs: Vec<String> = tp.path.segments.iter().map(|s| s.ident.to_string()).collect();
                match self.resolve(&segs, cur, self_ty) {
                    Resolved::Item(p, rest) if rest.is_empty() => match self.items.get(&p) {
                        Some(ItemKind::Struct { .. }) | Some(ItemKind::Enum { .. }) => Some(p),
                        _ => None,
                    },
                    _ => None,
                }
            }
            syn::Type::Reference(r) => self.resolve_type(&r.elem, cur, self_ty),
            syn::Type::Paren(p) => self.resolve_type(&p.elem, cur, self_ty),
            _ => None,
        }
    }

    pub fn find_method<'a>(
        &'a self,
        ty: &AbsPath,
        name: &str,
        trait_name: Option<&str>,
    ) -> Vec<(&'a ImplInfo, &'a syn::ImplItemFn)> {
        let mut out = Vec::new();
        for info in &self.impls {
            if &info.self_ty != ty {
                continue;
            }
            if let Some(t) = trait_name {
                if info.trait_name.as_deref() != Some(t) {
                    continue;
                }
            }
            for it in &info.imp.items {
                if let syn::ImplItem::Fn(f) = it {
                    if f.sig.ident == name {
                        out.push((info, f));
                    }
                }
            }
        }
        out
    }

    pub fn find_const<'a>(
        &'a self,
        ty: &AbsPath,
        name: &str,
        trait_name: Option<&str>,
    ) -> Option<(&'a ImplInfo, &'a syn::ImplItemConst)> {
        for info in &self.impls {
            if &info.self_ty != ty {
                continue;
            }
            if let Some(t) = trait_name {
                if info.trait_name.as_deref() != Some(t) {
                    continue;
                }
            }
            for it in &info.imp.items {
                if let syn::ImplItem::Const(c) = it {
                    if c.ident == name {
                        return Some((info, c));
                    }
                }
            }
        }
        None
    }
}
