#![allow(dead_code, unused_imports, clippy::all)]
extern crate proc_macro;

#[path = "/repo/leptos_i18n_macro/src/load_locales/mod.rs"]
pub(crate) mod load_locales;
#[path = "/repo/leptos_i18n_macro/src/t_macro/mod.rs"]
pub(crate) mod t_macro;
#[path = "/repo/leptos_i18n_macro/src/utils/mod.rs"]
pub(crate) mod utils;

fn main() {
    let args: Vec<String> = std::env::args().collect();
    match args.get(1).map(|s| s.as_str()) {
        Some("gen") => {
            let dir = &args[2];
            std::env::set_var("CARGO_MANIFEST_DIR", dir);
            let r = std::panic::catch_unwind(|| load_locales::load_locales());
            match r {
                Ok(Ok(ts)) => {
                    println!("{}", ts);
                }
                Ok(Err(e)) => {
                    eprintln!("ERR {}", e);
                    std::process::exit(3);
                }
                Err(_) => {
                    eprintln!("PANIC");
                    std::process::exit(4);
                }
            }
        }
        _ => {
            eprintln!("usage");
            std::process::exit(2);
        }
    }
}
