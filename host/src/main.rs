#![allow(dead_code, unused_imports, clippy::all)]
extern crate proc_macro;

#[path = "/repo/leptos_i18n_macro/src/load_locales/mod.rs"]
pub(crate) mod load_locales;
#[path = "/repo/leptos_i18n_macro/src/t_macro/mod.rs"]
pub(crate) mod t_macro;
#[path = "/repo/leptos_i18n_macro/src/utils/mod.rs"]
pub(crate) mod utils;

mod index;
mod project;
mod symeval;
mod term;

use std::io::{BufRead, Write};

fn main() {
    let args: Vec<String> = std::env::args().collect();
    match args.get(1).map(|s| s.as_str()) {
        Some("gen") => {
            // print the generated tokens of one project
            std::env::set_var("CARGO_MANIFEST_DIR", &args[2]);
            match load_locales::load_locales() {
                Ok(ts) => println!("{}", ts),
                Err(e) => {
                    eprintln!("ERR {}", e);
                    std::process::exit(3);
                }
            }
        }
        Some("eval") => {
            let out = project::process(&args[2]);
            println!("{}", serde_json::to_string(&out).unwrap());
        }
        Some("batch") => {
            std::panic::set_hook(Box::new(|_| {}));
            let stdin = std::io::stdin();
            let stdout = std::io::stdout();
            for line in stdin.lock().lines() {
                let line = match line {
                    Ok(l) => l,
                    Err(_) => break,
                };
                let dir = line.trim();
                if dir.is_empty() {
                    continue;
                }
                let out = project::process(dir);
                let mut o = stdout.lock();
                writeln!(o, "{}", serde_json::to_string(&out).unwrap()).unwrap();
                o.flush().unwrap();
            }
        }
        Some("warnings") => {
            // C07: the diagnostics the real parser emits for the projects given on stdin (one directory per line)
            use leptos_i18n_parser::parse_locales::{parse_locales, warning::Warning};
            use std::io::BufRead;
            for line in std::io::stdin().lock().lines() {
                let line = line.unwrap();
                let dir = line.trim();
                if dir.is_empty() {
                    continue;
                }
                let d = dir.to_string();
                let r = std::panic::catch_unwind(move || parse_locales(false, Some(std::path::PathBuf::from(d))));
                let out = match r {
                    Err(_) => serde_json::json!({"dir": dir, "status": "panic"}),
                    Ok(Err(e)) => serde_json::json!({"dir": dir, "status": "error", "error": e.to_string()}),
                    Ok(Ok((_keys, warnings, _paths))) => {
                        let ws: Vec<serde_json::Value> = warnings
                            .into_inner()
                            .into_iter()
                            .map(|w| match w {
                                Warning::MissingKey { locale, key_path } => serde_json::json!({"kind": "missing", "locale": locale.name.to_string(), "path": key_path.to_string()}),
                                Warning::SurplusKey { locale, key_path } => serde_json::json!({"kind": "surplus", "locale": locale.name.to_string(), "path": key_path.to_string()}),
                                other => serde_json::json!({"kind": "other", "text": other.to_string()}),
                            })
                            .collect();
                        serde_json::json!({"dir": dir, "status": "ok", "warnings": ws})
                    }
                };
                println!("{}", out);
            }
        }
        Some("parsevalue") => {
            // C09: ParsedValue::new (+ reduce) on every string of stdin (one JSON string per line); panics are caught
            use leptos_i18n_parser::parse_locales::{parsed_value::ParsedValue, ForeignKeysPaths};
            use leptos_i18n_parser::utils::{Key, KeyPath};
            use std::io::BufRead;
            std::panic::set_hook(Box::new(|_| {}));
            let mut n = 0usize;
            let mut ok = 0usize;
            let mut err = 0usize;
            for line in std::io::stdin().lock().lines() {
                let line = line.unwrap();
                let Ok(value) = serde_json::from_str::<String>(&line) else { continue };
                n += 1;
                let v = value.clone();
                let r = std::panic::catch_unwind(move || {
                    let fk = ForeignKeysPaths::new();
                    let kp = KeyPath::new(None);
                    let loc = Key::new("en").unwrap();
                    ParsedValue::new(&v, &kp, &loc, &fk).map(|_| ())
                });
                match r {
                    Ok(Ok(())) => ok += 1,
                    Ok(Err(_)) => err += 1,
                    Err(e) => {
                        let msg = e.downcast_ref::<String>().cloned().or_else(|| e.downcast_ref::<&str>().map(|s| s.to_string())).unwrap_or_default();
                        println!("{}", serde_json::json!({"panic": value, "message": msg}));
                    }
                }
            }
            println!("{}", serde_json::json!({"done": n, "ok": ok, "err": err}));
        }
        Some("cfg") => {
            // native replay for C19: the real ConfigFile::new on a directory holding a Cargo.toml
            use leptos_i18n_parser::parse_locales::cfg_file::ConfigFile;
            let mut path = std::path::PathBuf::from(&args[2]);
            let out = match ConfigFile::new(&mut path) {
                Ok(cfg) => serde_json::json!({
                    "ok": true,
                    "default": cfg.default.name.to_string(),
                    "locales": cfg.locales.iter().map(|k| k.name.to_string()).collect::<Vec<_>>(),
                    "namespaces": cfg.name_spaces.as_ref().map(|v| v.iter().map(|k| k.name.to_string()).collect::<Vec<_>>()),
                    "inherits": cfg.extensions.iter().map(|(k, v)| (k.name.to_string(), v.name.to_string())).collect::<std::collections::BTreeMap<_, _>>(),
                    "locales_dir": cfg.locales_dir.to_string(),
                }),
                Err(e) => serde_json::json!({"ok": false, "error": e.to_string()}),
            };
            println!("{}", out);
        }
        Some("default-of") => {
            // native replay for the MIR kernel of C03: {"default": "l0", "mapping": {"l1": "l2"}, "start": "l1"}
            use leptos_i18n_parser::parse_locales::locale::DefaultedLocales;
            use leptos_i18n_parser::utils::Key;
            let q: serde_json::Value = serde_json::from_str(&args[2]).expect("json");
            let mut d = DefaultedLocales::new(Key::new(q["default"].as_str().unwrap()).unwrap());
            for (k, v) in q["mapping"].as_object().unwrap() {
                if let Some(v) = v.as_str() {
                    d.push(Key::new(k).unwrap(), Key::new(v).unwrap());
                }
            }
            let start = Key::new(q["start"].as_str().unwrap()).unwrap();
            println!("{}", d.default_of(&start));
        }
        Some("direction") => {
            // CLDR text direction of locale names (one per line), straight from icu_locid_transform
            let ld = icu_locid_transform::LocaleDirectionality::new();
            let stdin = std::io::stdin();
            for line in stdin.lock().lines() {
                let line = match line { Ok(l) => l, Err(_) => break };
                let name = line.trim();
                if name.is_empty() { continue; }
                let r = match name.parse::<icu_locid::LanguageIdentifier>() {
                    Ok(id) => match ld.get(&id) {
                        Some(icu_locid_transform::Direction::LeftToRight) => "LeftToRight",
                        Some(icu_locid_transform::Direction::RightToLeft) => "RightToLeft",
                        _ => "Auto",
                    },
                    Err(_) => "invalid",
                };
                println!("{}\t{}", name, r);
            }
        }
        Some("cldr") => {
            // oracle for "what CLDR assigns": {"locale","rule","n"} per line -> category (icu_plurals directly)
            use icu_plurals::{PluralRuleType, PluralRules};
            let stdin = std::io::stdin();
            let stdout = std::io::stdout();
            for line in stdin.lock().lines() {
                let line = match line { Ok(l) => l, Err(_) => break };
                let q: serde_json::Value = match serde_json::from_str(&line) { Ok(q) => q, Err(_) => continue };
                let loc: icu_locid::Locale = match q["locale"].as_str().unwrap_or("").parse() {
                    Ok(l) => l,
                    Err(e) => { println!("{}", serde_json::json!({"err": e.to_string()})); continue; }
                };
                let rt = if q["rule"].as_str() == Some("ordinal") { PluralRuleType::Ordinal } else { PluralRuleType::Cardinal };
                let rules = match PluralRules::try_new(&loc.into(), rt) {
                    Ok(r) => r,
                    Err(e) => { println!("{}", serde_json::json!({"err": e.to_string()})); continue; }
                };
                let cats: Vec<String> = rules.categories().map(|c| format!("{:?}", c).to_lowercase()).collect();
                let cat = if let Some(n) = q["n"].as_u64() {
                    Some(rules.category_for(n))
                } else if let Some(n) = q["n"].as_i64() {
                    Some(rules.category_for(n))
                } else if let Some(n) = q["n"].as_f64() {
                    fixed_decimal::FixedDecimal::try_from_f64(n, fixed_decimal::FloatPrecision::Floating).ok().map(|d| rules.category_for(&d))
                } else { None };
                let mut o = stdout.lock();
                writeln!(o, "{}", serde_json::json!({"category": cat.map(|c| format!("{:?}", c).to_lowercase()), "categories": cats})).unwrap();
                o.flush().unwrap();
            }
        }
        _ => {
            eprintln!("usage: verif-host gen|eval <project dir> | batch < dirs");
            std::process::exit(2);
        }
    }
}
