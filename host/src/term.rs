//! Term language produced by the symbolic evaluator (serialised to JSON for the python/z3 side).
use serde_json::{json, Value as J};

#[derive(Clone, Debug, PartialEq)]
pub enum LocT {
    Sym,
    Const(String),
}

#[derive(Clone, Debug, PartialEq)]
pub enum NumT {
    Field(String),
    Lit { ty: String, v: String },
}

#[derive(Clone, Debug, PartialEq)]
pub struct CatT {
    pub loc: LocT,
    pub rule: String,
    pub x: NumT,
}

#[derive(Clone, Debug, PartialEq)]
pub enum Cond {
    True,
    False,
    LocIn(Vec<String>),
    Cmp(String, NumT, NumT),
    And(Vec<Cond>),
    Or(Vec<Cond>),
    Not(Box<Cond>),
    CatEq(CatT, String),
    StrEq(Box<Term>, String),
}

#[derive(Clone, Debug, PartialEq)]
pub enum Arg {
    T(Term),
    Loc(LocT),
    Tok(String),
    Num(NumT),
}

#[derive(Clone, Debug, PartialEq)]
pub enum Term {
    Str(String),
    Var(String),
    App(String, Vec<Arg>),
    Cat(Vec<Term>),
    Ite(Cond, Box<Term>, Box<Term>),
    Unreach(String),
}

impl LocT {
    pub fn to_json(&self) -> J {
        match self {
            LocT::Sym => json!({"l":"sym"}),
            LocT::Const(v) => json!({"l":"const","v":v}),
        }
    }
}

impl NumT {
    pub fn to_json(&self) -> J {
        match self {
            NumT::Field(n) => json!({"n":"field","name":n}),
            NumT::Lit { ty, v } => json!({"n":"lit","ty":ty,"v":v}),
        }
    }
}

impl CatT {
    pub fn to_json(&self) -> J {
        json!({"loc": self.loc.to_json(), "rule": self.rule, "x": self.x.to_json()})
    }
}

impl Cond {
    pub fn to_json(&self) -> J {
        match self {
            Cond::True => json!({"c":"true"}),
            Cond::False => json!({"c":"false"}),
            Cond::LocIn(v) => json!({"c":"loc","in":v}),
            Cond::Cmp(op, a, b) => json!({"c":"cmp","op":op,"l":a.to_json(),"r":b.to_json()}),
            Cond::And(v) => json!({"c":"and","a":v.iter().map(|c| c.to_json()).collect::<Vec<_>>()}),
            Cond::Or(v) => json!({"c":"or","a":v.iter().map(|c| c.to_json()).collect::<Vec<_>>()}),
            Cond::Not(c) => json!({"c":"not","a":c.to_json()}),
            Cond::CatEq(c, v) => json!({"c":"cateq","x":c.to_json(),"v":v}),
            Cond::StrEq(t, v) => json!({"c":"streq","x":t.to_json(),"v":v}),
        }
    }
}

impl Arg {
    pub fn to_json(&self) -> J {
        match self {
            Arg::T(t) => json!({"a":"term","v":t.to_json()}),
            Arg::Loc(l) => json!({"a":"loc","v":l.to_json()}),
            Arg::Tok(s) => json!({"a":"tok","v":s}),
            Arg::Num(n) => json!({"a":"num","v":n.to_json()}),
        }
    }
}

impl Term {
    pub fn to_json(&self) -> J {
        match self {
            Term::Str(s) => json!({"t":"str","v":s}),
            Term::Var(n) => json!({"t":"var","n":n}),
            Term::App(f, a) => json!({"t":"app","f":f,"a":a.iter().map(|x| x.to_json()).collect::<Vec<_>>()}),
            Term::Cat(v) => json!({"t":"cat","a":v.iter().map(|x| x.to_json()).collect::<Vec<_>>()}),
            Term::Ite(c, a, b) => json!({"t":"ite","c":c.to_json(),"a":a.to_json(),"b":b.to_json()}),
            Term::Unreach(w) => json!({"t":"unreach","why":w}),
        }
    }

    pub fn cat(mut v: Vec<Term>) -> Term {
        let mut out: Vec<Term> = Vec::new();
        for t in v.drain(..) {
            match t {
                Term::Cat(inner) => out.extend(inner),
                Term::Str(s) if s.is_empty() => {}
                t => out.push(t),
            }
        }
        if out.len() == 1 {
            out.pop().unwrap()
        } else {
            Term::Cat(out)
        }
    }
}
