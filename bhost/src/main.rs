//! Exports the string tables of a project through the real build helper (leptos_i18n_build).
use leptos_i18n_build::{TranslationsInfos, TranslationsType};
use serde_json::json;

fn one(dir: &str) -> serde_json::Value {
    let infos = match std::panic::catch_unwind(|| TranslationsInfos::parse_at_dir(dir)) {
        Ok(Ok(i)) => i,
        Ok(Err(e)) => return json!({"dir": dir, "status": "error", "error": e.to_string()}),
        Err(_) => return json!({"dir": dir, "status": "panic"}),
    };
    let mut tables = Vec::new();
    match infos.get_translations() {
        TranslationsType::Locale(locales) => {
            for l in locales {
                tables.push(json!({"namespace": null, "locale": l.name(), "formatted": l.translations_formatter().to_string()}));
            }
        }
        TranslationsType::Namespace(nss) => {
            for ns in nss {
                let name = ns.name().to_string();
                for l in ns.into_locales() {
                    tables.push(json!({"namespace": name, "locale": l.name(), "formatted": l.translations_formatter().to_string()}));
                }
            }
        }
    }
    // what write_to_dir puts on disk
    let out = std::path::Path::new(dir).join("exported");
    let _ = std::fs::remove_dir_all(&out);
    let written = infos.get_translations().write_to_dir(out.clone()).is_ok();
    json!({"dir": dir, "status": "ok", "tables": tables, "written": written, "out_dir": out.to_string_lossy(),
           "locales": infos.get_locales().map(|l| l.to_string()).collect::<Vec<_>>()})
}

/// C20: the options the build helper derives, the locales and namespaces it reports
fn options(dir: &str) -> serde_json::Value {
    let infos = match std::panic::catch_unwind(|| TranslationsInfos::parse_at_dir(dir)) {
        Ok(Ok(i)) => i,
        Ok(Err(e)) => return json!({"dir": dir, "status": "error", "error": e.to_string()}),
        Err(_) => return json!({"dir": dir, "status": "panic"}),
    };
    // every API call on its own: a panic is attributed to the call
    let infos = std::panic::AssertUnwindSafe(infos);
    let mut panics: Vec<&str> = Vec::new();
    let opts = std::panic::catch_unwind(|| {
        let mut opts: Vec<String> = infos.verif_used_options().into_iter().map(|o| format!("{:?}", o)).collect();
        opts.sort();
        opts
    })
    .unwrap_or_else(|_| { panics.push("get_icu_keys_inner"); vec![] });
    let keys = std::panic::catch_unwind(|| {
        let mut keys: Vec<String> = infos.get_icu_keys().map(|k| k.path().to_string()).collect();
        keys.sort();
        keys.dedup();
        keys
    })
    .unwrap_or_else(|_| { panics.push("get_icu_keys"); vec![] });
    let locales = std::panic::catch_unwind(|| infos.get_locales().map(|l| l.to_string()).collect::<Vec<_>>()).unwrap_or_else(|_| { panics.push("get_locales"); vec![] });
    let langids = std::panic::catch_unwind(|| infos.get_locales_langids().map(|l| l.to_string()).collect::<Vec<_>>()).unwrap_or_else(|_| { panics.push("get_locales_langids"); vec![] });
    let namespaces = std::panic::catch_unwind(|| infos.get_namespaces().map(|it| it.map(|n| n.to_string()).collect::<Vec<_>>())).unwrap_or_else(|_| { panics.push("get_namespaces"); None });
    json!({"dir": dir, "status": if panics.is_empty() { "ok" } else { "panic" }, "panics": panics, "options": opts, "data_keys": keys,
           "locales": locales, "langids": langids, "namespaces": namespaces})
}

fn main() {
    use std::io::BufRead;
    std::panic::set_hook(Box::new(|_| {}));
    let args: Vec<String> = std::env::args().collect();
    if args.len() > 2 && args[1] == "tables" {
        println!("{}", one(&args[2]));
        return;
    }
    if args.len() > 1 && args[1] == "options" {
        for line in std::io::stdin().lock().lines() {
            let line = line.unwrap();
            let d = line.trim();
            if !d.is_empty() {
                println!("{}", options(d));
            }
        }
        return;
    }
    for line in std::io::stdin().lock().lines() {
        let line = line.unwrap();
        let d = line.trim();
        if !d.is_empty() {
            println!("{}", one(d));
        }
    }
}
