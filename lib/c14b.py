"""C14, second sentence (kernel level): match_path_segments + construct_path_segments + PathBuilder from MIR.
Round trip: a path that matches locale A's route segments, rewritten for locale B, matches B's segments and
rewrites back to the original segments; the number of segments is preserved."""
import re
import time

import z3

import mir2
from mirsmt import Unsupported

UNIT, STATIC, PARAM, OPTIONAL, SPLAT = 0, 1, 2, 3, 4


def seg(kind, text=""):
    return ("enum", kind, (z3.StringVal(text),)) if kind != UNIT else ("enum", UNIT, ())


# route tables: (segments for locale A, segments for locale B): same shape, localized statics differ
def tables():
    S, P, O, X = STATIC, PARAM, OPTIONAL, SPLAT
    t = []
    t.append(([seg(S, "counter"), seg(P, "id")], [seg(S, "compteur"), seg(P, "id")]))
    t.append(([seg(S, "files"), seg(X, "rest")], [seg(S, "fichiers"), seg(X, "rest")]))
    t.append(([seg(S, "a"), seg(P, "x"), seg(S, "b"), seg(X, "any")], [seg(S, "aa"), seg(P, "x"), seg(S, "bb"), seg(X, "any")]))
    t.append(([seg(UNIT), seg(S, "about"), seg(S, "")], [seg(UNIT), seg(S, "a-propos"), seg(S, "")]))
    t.append(([seg(S, "shop"), seg(O, "cat"), seg(S, "item")], [seg(S, "boutique"), seg(O, "cat"), seg(S, "article")]))
    t.append(([seg(P, "p"), seg(S, "edit")], [seg(P, "p"), seg(S, "modifier")]))
    return t


def make_summaries():
    def ret(st, v):
        return [(st, v)]

    def chase(m, st, p):
        """follow pointer chains to the cell that holds a non-pointer value; -> (ptr to that cell, value)"""
        v = p
        last = None
        while isinstance(v, tuple) and v[0] == "ptr":
            last = v
            v = mir2.get_path(m.mem_get(st, v[1]), v[2])
        return last, v

    def write_ptr(m, st, p, v):
        if p[2]:
            st.mem[p[1]] = mir2.set_path(st.mem[p[1]], p[2], v)
        else:
            st.mem[p[1]] = v

    def s_iter(m, st, args, callee):
        v = m.deref_all(st, args[0])
        return ret(st, ("iter", tuple(v[1]), 0))

    def s_enumerate(m, st, args, callee):
        return ret(st, ("enum_iter", args[0], 0))

    def s_ident(m, st, args, callee):
        return ret(st, args[0])

    def iter_next(it):
        if it[0] == "iter":
            if it[2] < len(it[1]):
                return ("iter", it[1], it[2] + 1), ("opt", z3.BoolVal(True), it[1][it[2]])
            return it, ("opt", z3.BoolVal(False), None)
        if it[0] == "enum_iter":
            inner, o = iter_next(it[1])
            if z3.is_true(o[1]):
                return ("enum_iter", inner, it[2] + 1), ("opt", z3.BoolVal(True), ("tuple", (z3.BitVecVal(it[2], 64), o[2])))
            return ("enum_iter", inner, it[2]), o
        raise Unsupported("next on %r" % (it[0],))

    def s_next(m, st, args, callee):
        a = args[0]
        if isinstance(a, tuple) and a[0] == "ptr":
            cell, it = chase(m, st, a)
            it2, o = iter_next(it)
            write_ptr(m, st, cell, it2)
            return ret(st, o)
        raise Unsupported("next on a by-value iterator")

    def s_unwrap(m, st, args, callee):
        o = args[0]
        if z3.is_true(z3.simplify(o[1])):
            return ret(st, o[2])
        # unwrap of None: a panic, recorded as an obligation that must be unreachable
        st.obligations.append(("unwrap", list(st.pc), z3.BoolVal(False)))
        return []

    def s_branch(m, st, args, callee):
        o = args[0]
        return ret(st, ("cf", o[1], o[2]))

    def s_from_residual(m, st, args, callee):
        return ret(st, ("opt", z3.BoolVal(False), None))

    def s_set_new(m, st, args, callee):
        return ret(st, ("set", frozenset()))

    def as_int(m, st, v):
        v = z3.simplify(m.deref_all(st, v))
        if not z3.is_bv_value(v):
            raise Unsupported("symbolic index in a HashSet<usize>")
        return v.as_long()

    def s_set_insert(m, st, args, callee):
        cell, sv = chase(m, st, args[0])
        i = as_int(m, st, args[1])
        write_ptr(m, st, cell, ("set", sv[1] | {i}))
        return ret(st, z3.BoolVal(i not in sv[1]))

    def s_set_contains(m, st, args, callee):
        sv = m.deref_all(st, args[0])
        return ret(st, z3.BoolVal(as_int(m, st, args[1]) in sv[1]))

    def s_str_eq(m, st, args, callee):
        a, b = m.deref_all(st, args[0]), m.deref_all(st, args[1])
        return ret(st, z3.simplify(a == b))

    def s_is_empty(m, st, args, callee):
        return ret(st, z3.simplify(z3.Length(m.deref_all(st, args[0])) == 0))

    def s_is_none(m, st, args, callee):
        return ret(st, z3.Not(m.deref_all(st, args[0])[1]))

    def s_then_some(m, st, args, callee):
        return ret(st, ("opt", args[0], args[1]))

    def s_trim_matches(m, st, args, callee):
        s, c = m.deref_all(st, args[0]), args[1]
        if c != ("char", "/"):
            raise Unsupported("trim_matches(%r)" % (c,))
        # constant argument: compute; argument that cannot contain '/' on this path: trimming is the identity
        ss = z3.simplify(s)
        if z3.is_string_value(ss):
            return ret(st, z3.StringVal(ss.as_string().strip("/")))
        if s.get_id() in getattr(m, "no_slash_ids", ()):
            return ret(st, s)          # an input segment: assumed (path condition) to contain no '/' 
        m.frame_counter += 1
        n = m.frame_counter
        pre, t, post = z3.String("tm_pre_%d" % n), z3.String("tm_%d" % n), z3.String("tm_post_%d" % n)
        sl = z3.Star(z3.Re(z3.StringVal("/")))
        st.define([s == z3.Concat(pre, t, post), z3.InRe(pre, sl), z3.InRe(post, sl),
                   z3.Not(z3.PrefixOf(z3.StringVal("/"), t)), z3.Not(z3.SuffixOf(z3.StringVal("/"), t))])
        return ret(st, t)

    def s_vec_push(m, st, args, callee):
        cell, v = chase(m, st, args[0])
        write_ptr(m, st, cell, ("vec", tuple(v[1]) + (m.deref_all(st, args[1]),)))
        return ret(st, ("unit",))

    def s_join(m, st, args, callee):
        v = m.deref_all(st, args[0])
        sep = m.deref_all(st, args[1])
        parts = []
        for i, x in enumerate(v[1]):
            if i:
                parts.append(sep)
            parts.append(x)
        return ret(st, z3.Concat(*parts) if len(parts) > 1 else (parts[0] if parts else z3.StringVal("")))

    def s_mir(regex):
        def f(m, st, args, callee):
            return m.call_fn(m.fn(regex), list(args), st)
        return f

    return [
        (r"impl \[.*\]>::iter$", s_iter),
        (r"as IntoIterator>::into_iter$", lambda m, st, args, callee: (s_iter(m, st, args, callee) if m.deref_all(st, args[0])[0] in ("slice", "vec") else ret(st, args[0]))),
        (r"Iterator>::enumerate$", s_enumerate),
        (r"Iterator>::next$", s_next),
        (r"Option::<.*>::unwrap$", s_unwrap),
        (r"as Try>::branch$", s_branch),
        (r"as FromResidual<.*>>::from_residual$", s_from_residual),
        (r"^HashSet::<usize>::new$", s_set_new),
        (r"^HashSet::<usize>::insert$", s_set_insert),
        (r"^HashSet::<usize>::contains::<", s_set_contains),
        (r"as PartialEq<.*>>::eq$", s_str_eq),
        (r"<Cow<'_, str> as Deref>::deref$", s_ident),
        (r"impl str>::is_empty$", s_is_empty),
        (r"^String::is_empty$", s_is_empty),
        (r"Option::<.*>::is_none$", s_is_none),
        (r"impl bool>::then_some::<", s_then_some),
        (r"impl str>::trim_matches::<char>$", s_trim_matches),
        (r"^Vec::<&str>::push$", s_vec_push),
        (r"<Vec<&str> as Deref>::deref$", s_ident),
        (r"impl \[&str\]>::join::<&str>$", s_join),
        (r"<str as ToOwned>::to_owned$", s_ident),
        (r"^PathBuilder::<'_>::push$", s_mir(r"::push\(_1: &mut PathBuilder")),
        (r"^PathBuilder::<'_>::build$", s_mir(r"::build\(_1: &PathBuilder")),
    ]


class RouterMachine(mir2.Machine):
    def operand(self, st, frame, o):
        if o[0] == "const":
            m = re.match(r'^"(.*)"$', o[1])
            if m:
                return z3.StringVal(m.group(1))
        return super().operand(st, frame, o)


def fresh_pb():
    # PathBuilder::new() == PathBuilder(vec![""])   (routing.rs:33-35)
    return ("struct", (("vec", (z3.StringVal(""),)),))


def rewrite(m, st, segs, ra, rb):
    """[(state, new segments tuple)] for every path where segs match ra; paths where they do not match are dropped"""
    out = []
    for st1, o in m.call_fn(m.fn(r"^fn match_path_segments\("), [("slice", segs), ("slice", tuple(ra))], st):
        if not (isinstance(o, tuple) and o[0] == "opt"):
            raise Unsupported("match_path_segments returned %r" % (o,))
        some = z3.simplify(o[1])
        if z3.is_false(some):
            continue
        if not z3.is_true(some):
            if not m.feasible(st1, some):
                continue
            st1 = st1.fork(some)
        m.frame_counter += 1
        kpb, kopt = (m.frame_counter, "pb"), (m.frame_counter, "optionals")
        st1.mem[kpb] = fresh_pb()
        st1.mem[kopt] = o[2]
        for st2, _ in m.call_fn(m.fn(r"^fn construct_path_segments\("),
                                [("slice", segs), ("slice", tuple(rb)), ("ptr", kpb, ()), ("ptr", kopt, ())], st1):
            items = st2.mem[kpb][1][0][1]
            out.append((st2, tuple(items[1:])))
    return out


def decide(mir, nsegs, timeout_ms=60000):
    res = []
    for ti, (ra, rb) in enumerate(tables()):
        m = RouterMachine(mir, make_summaries(), unroll=12)
        segs = tuple(z3.String("seg%d" % i) for i in range(nsegs))
        st = mir2.St()
        m.no_slash_ids = {s.get_id() for s in segs}
        for s in segs:
            st.pc += [z3.Length(s) > 0, z3.Not(z3.Contains(s, z3.StringVal("/")))]
        bad = None
        npaths = 0
        t0 = time.time()
        for st1, new in rewrite(m, st, segs, ra, rb):
            npaths += 1

            def check(cond, what):
                sol = z3.Solver()
                sol.set("timeout", timeout_ms)
                sol.add(st1.pc)
                sol.add(cond)
                r = sol.check()
                if r == z3.sat:
                    mdl = sol.model()
                    return {"what": what, "segments": [mdl.eval(s, model_completion=True).as_string() for s in segs],
                            "rewritten": [mdl.eval(x, model_completion=True).as_string() for x in new]}
                if r == z3.unknown:
                    raise Unsupported("solver unknown (%s)" % what)
                return None
            if len(new) != len(segs):
                bad = check(z3.BoolVal(True), "the rewritten path has %d segments, the original %d" % (len(new), len(segs)))
                if bad:
                    break
            base_len = len(st1.pc)
            back_paths = rewrite(m, st1.copy(), new, rb, ra)
            # the rewritten path must match the target locale's segments on every input of this path; the extra
            # conditions of the way back mention only fresh variables defined by equations (trim results), so
            # "some way back is feasible" is checked per input by asking for an input on which none is
            defs, alts = [], []
            for st2, _ in back_paths:
                extra = st2.pc[base_len:]
                defs += [c for c in extra if c.get_id() in st2.defs]
                br = [c for c in extra if c.get_id() not in st2.defs]
                alts.append(z3.And(br) if br else z3.BoolVal(True))
            matched = z3.Or(alts) if alts else z3.BoolVal(False)
            bad = check(z3.And(defs + [z3.Not(matched)]), "the rewritten path does not match the other locale's route")
            if bad:
                break
            for st2, back in back_paths:
                if len(back) != len(segs):
                    diff = z3.BoolVal(True)
                else:
                    diff = z3.Or([a != b for a, b in zip(back, segs)]) if segs else z3.BoolVal(False)
                sol = z3.Solver()
                sol.set("timeout", timeout_ms)
                sol.add(st2.pc)
                sol.add(diff)
                r = sol.check()
                if r == z3.sat:
                    mdl = sol.model()
                    bad = {"what": "switching back does not give the original path",
                           "segments": [mdl.eval(s, model_completion=True).as_string() for s in segs],
                           "rewritten": [mdl.eval(x, model_completion=True).as_string() for x in new],
                           "back": [mdl.eval(x, model_completion=True).as_string() for x in back]}
                    break
                if r == z3.unknown:
                    raise Unsupported("solver unknown (round trip)")
            if bad:
                break
        unreachable_ok = True
        res.append({"table": ti, "segments": nsegs, "paths": npaths, "violation": bad, "secs": round(time.time() - t0, 2),
                    "mir_fns": sorted(m.mir_fns_run), "calls": sorted(m.calls_seen)})
    return res


# ------------------------------------------------------------------------------------------ native replay
KIND_RUST = {UNIT: "Unit", STATIC: "Static", PARAM: "Param", OPTIONAL: "OptionalParam", SPLAT: "Splat"}


def rust_table(t):
    items = []
    for sg in t:
        if sg[1] == UNIT:
            items.append("PathSegment::Unit")
        else:
            items.append("PathSegment::%s(%s.into())" % (KIND_RUST[sg[1]], __import__("replay").rust_str(sg[2][0].as_string())))
    return "vec![vec![%s]]" % ", ".join(items)


NATIVE = """
    use leptos_router::PathSegment;
    let a: Vec<Vec<PathSegment>> = @A@;
    let b: Vec<Vec<PathSegment>> = @B@;
    let path = @PATH@;
    let there = leptos_i18n_router::verif_hooks::localize_path(path, &a, &b);
    let back = there.as_deref().and_then(|p| leptos_i18n_router::verif_hooks::localize_path(p, &b, &a));
    println!("0\t{}", hex(&format!("{:?}", there)));
    println!("1\t{}", hex(&format!("{:?}", back)));
"""


def native(table_index, segments):
    """A -> B -> A through the real localize_path (verif_hooks forwarder). -> (there, back) as Debug strings"""
    import os
    import subprocess
    import model
    import replay
    import report
    ra, rb = tables()[table_index]
    proj = model.Project("en", ["en", "fr"], {l: {"k": model.S("x")} for l in ("en", "fr")})
    d = os.path.join(report.VERIF, "work", "c14b_native")
    proj.write(d)
    path = "/" + "/".join(segments)
    body = NATIVE.replace("@A@", rust_table(ra)).replace("@B@", rust_table(rb)).replace("@PATH@", replay.rust_str(path))
    replay.setup_crate(d, body, router=True)
    env = dict(os.environ, CARGO_NET_OFFLINE="true", CARGO_TARGET_DIR=replay.TARGET)
    try:
        p = subprocess.run(["cargo", "run", "--quiet"], cwd=replay.CRATE, env=env, capture_output=True, text=True, timeout=1800)
    finally:
        replay.unlock()
    if p.returncode != 0:
        raise replay.ReplayError(p.stderr[-2000:])
    out = {}
    for l in p.stdout.split("\n"):
        if "\t" in l:
            i, hx = l.split("\t")
            out[int(i)] = bytes.fromhex(hx).decode()
    return path, out.get(0), out.get(1)
