"""C13, serde part: `LocaleVisitor::visit_{borrowed_str,str,string}` executed from MIR (engine M).
Property: deserialising a string gives the locale whose configured name it is (after the same trimming FromStr
does), and the default locale for every other string."""
import re

import z3

import mir2
from mirsmt import Unsupported

WS = [9, 10, 11, 12, 13, 32, 0x85, 0xA0, 0x1680] + list(range(0x2000, 0x200B)) + [0x2028, 0x2029, 0x202F, 0x205F, 0x3000]


def trimmed(side, s):
    t, pre, post = z3.String("serde_trim_t"), z3.String("serde_trim_pre"), z3.String("serde_trim_post")
    ws = z3.Union(*[z3.Re(z3.StringVal(chr(c))) for c in WS])
    anyc = z3.Star(z3.AllChar(z3.ReSort(z3.StringSort())))
    side += [s == z3.Concat(pre, t, post), z3.InRe(pre, z3.Star(ws)), z3.InRe(post, z3.Star(ws)),
             z3.Not(z3.InRe(t, z3.Concat(ws, anyc))), z3.Not(z3.InRe(t, z3.Concat(anyc, ws)))]
    return t


class SerdeMachine(mir2.Machine):
    def rvalue(self, st, frame, r, fn=None, stmt=None):
        m = re.match(r"^Result::<.*>::(Ok|Err)\((.*)\)$", r.strip())
        if m:
            v = self.operand(st, frame, mir2.parse_operand(m.group(2)))
            return ("result", m.group(1), v)
        return super().rvalue(st, frame, r, fn, stmt)

    def operand(self, st, frame, o):
        if o[0] == "const" and re.match(r"^ZeroSized: LocaleVisitor<L>$", o[1]):
            return ("unit",)
        return super().operand(st, frame, o)


def decide(mir, names, default, timeout_ms=60000):
    """names: configured names in enum order. -> dict(status, model?)"""
    side = []
    s = z3.String("input")
    t = trimmed(side, s)
    anyloc = z3.Int("negotiated_locale_index")

    def ret(st, v):
        return [(st, v)]

    def s_from_str(m, st, args, callee):
        conds = [(n, t == z3.StringVal(n)) for n in names]
        return ret(st, ("fromstr", conds))

    def s_unwrap_or_default(m, st, args, callee):
        r = args[0]
        if r[0] != "fromstr":
            raise Unsupported("unwrap_or_default of %r" % (r[0],))
        return ret(st, ("sel", r[1], ("name", default)))

    def s_unwrap_or_else(m, st, args, callee):
        r, clos = args
        if r[0] != "fromstr":
            raise Unsupported("unwrap_or_else of %r" % (r[0],))
        outs = m.call_closure(st, clos, [("unit",)])
        return [(st1, ("sel", r[1], v)) for st1, v in outs]

    def s_unwrap_or(m, st, args, callee):
        r, dflt = args
        return ret(st, ("sel", r[1], dflt))

    def s_find_locale(m, st, args, callee):
        # over-approximation: negotiation may return any configured locale
        return ret(st, ("anyloc",))

    def s_default(m, st, args, callee):
        return ret(st, ("name", default))

    def s_ident(m, st, args, callee):
        return ret(st, args[0])

    def s_visit(name):
        def f(m, st, args, callee):
            return m.call_fn(m.fn(r"::" + name + r"\(_1: LocaleVisitor<L>"), list(args), st)
        return f

    m = SerdeMachine(mir, [
        (r"<L as FromStr>::from_str$", s_from_str),
        (r"^Result::<L, .*>::unwrap_or_default$", s_unwrap_or_default),
        (r"^Result::<L, .*>::unwrap_or_else::<", s_unwrap_or_else),
        (r"^Result::<L, .*>::unwrap_or$", s_unwrap_or),
        (r"Locale(<L>)?>::find_locale::<", s_find_locale),
        (r"Locale(<L>)?>::find_matchs::<", s_find_locale),
        (r"<L as Default>::default$", s_default),
        (r"<String as Deref>::deref$", s_ident),
        (r"Visitor<'_>>::visit_borrowed_str::<", s_visit("visit_borrowed_str")),
        (r"Visitor<'_>>::visit_str::<", s_visit("visit_str")),
    ])
    results = {}
    for entry in ("visit_borrowed_str", "visit_str", "visit_string"):
        fn = m.fn(r"::" + entry + r"\(_1: LocaleVisitor<L>")
        outs = m.call_fn(fn, [("unit",), s], mir2.St())
        bad = None
        for st1, v in outs:
            if not (isinstance(v, tuple) and v[0] == "result" and v[1] == "Ok"):
                raise Unsupported("%s returned %r" % (entry, v))
            sel = v[2]
            if not (isinstance(sel, tuple) and sel[0] == "sel"):
                raise Unsupported("%s returned Ok(%r)" % (entry, sel))
            conds, other = sel[1], sel[2]
            # result(l) := first cond that holds, else `other`
            def result_is(name):
                c = z3.BoolVal(False)
                none_before = []
                for n, cnd in conds:
                    if n == name:
                        c = z3.Or(c, z3.And(none_before + [cnd]))
                    none_before.append(z3.Not(cnd))
                if other == ("name", name):
                    c = z3.Or(c, z3.And(none_before))
                elif other == ("anyloc",):
                    c = z3.Or(c, z3.And(none_before + [anyloc == names.index(name)]))
                elif other[0] not in ("name", "anyloc"):
                    raise Unsupported("fallback value %r" % (other,))
                return c
            for n in names:
                spec = (t == z3.StringVal(n)) if n != default else z3.Or(t == z3.StringVal(n), z3.And([t != z3.StringVal(x) for x in names]))
                sol = z3.Solver()
                sol.set("timeout", timeout_ms)
                sol.add(side)
                sol.add(st1.pc)
                sol.add(anyloc >= 0, anyloc < len(names))
                sol.add(result_is(n) != spec)
                r = sol.check()
                if r == z3.sat:
                    mdl = sol.model()
                    bad = {"input": mdl.eval(s, model_completion=True).as_string(), "locale": n, "entry": entry}
                    break
                if r == z3.unknown:
                    raise Unsupported("solver unknown on %s" % entry)
            if bad:
                break
        results[entry] = bad
    return results, sorted(m.calls_seen)


NATIVE = '''
    let inputs: &[&str] = &[@INPUTS@];
    for (i, s) in inputs.iter().enumerate() {
        let j = format!("{:?}", s);
        let r: Result<Locale, _> = serde_json::from_str(&j);
        println!("{}\\t{}", i, hex(&match r { Ok(l) => leptos_i18n::Locale::as_str(l).to_string(), Err(e) => format!("error {}", e) }));
    }
'''
