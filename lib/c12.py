"""C12: langid::find_match / filter_matches executed symbolically from MIR (engine M, second executor)."""
import json
import os
import re
import subprocess
import time

import z3

import hostrun
import mir2
import mirsmt
import report
from mirsmt import Unsupported

BV = 32
UND = z3.BitVecVal(0, BV)

SETS = [
    ("fr", ["fr", "en-US"]),
    ("en", ["en", "en-US", "fr"]),
    ("de", ["de", "de-DE", "en"]),
    ("zh", ["zh", "zh-Hant", "zh-Hant-TW"]),
    ("en", ["en-GB", "en"]),
]

_codes = {}


def code(s):
    if s not in _codes:
        _codes[s] = len(_codes) + 1
    return z3.BitVecVal(_codes[s], BV)


def concrete_langid(name):
    parts = name.split("-")
    lang = code("L:" + parts[0])
    script = ("opt", z3.BoolVal(False), z3.BitVecVal(0, BV))
    region = ("opt", z3.BoolVal(False), z3.BitVecVal(0, BV))
    for p in parts[1:]:
        if len(p) == 4:
            script = ("opt", z3.BoolVal(True), code("S:" + p))
        else:
            region = ("opt", z3.BoolVal(True), code("R:" + p))
    variants = ("variants", z3.BoolVal(False), z3.BitVecVal(0, BV))
    return ("struct", (lang, script, region, variants))


def symbolic_langid(i):
    lang = z3.BitVec("req%d_lang" % i, BV)
    script = ("opt", z3.Bool("req%d_has_script" % i), z3.BitVec("req%d_script" % i, BV))
    region = ("opt", z3.Bool("req%d_has_region" % i), z3.BitVec("req%d_region" % i, BV))
    variants = ("variants", z3.Bool("req%d_has_variant" % i), z3.BitVec("req%d_variant" % i, BV))
    return ("struct", (lang, script, region, variants))


def opt_eq(a, b):
    return z3.And(a[1] == b[1], z3.Or(z3.Not(a[1]), a[2] == b[2]))


# ------------------------------------------------------------------------------------------ the property (independent of the code)
def exact(a, r):
    return z3.And(a[1][0] == r[1][0], opt_eq(a[1][1], r[1][1]), opt_eq(a[1][2], r[1][2]), opt_eq(a[1][3], r[1][3]))


def as_less_specific(a, r):
    """`a` matches r exactly or as a less specific form of it (a's absent subtags are wild cards)."""
    return z3.And(z3.Or(a[1][0] == r[1][0], a[1][0] == UND),
                  z3.Or(z3.Not(a[1][1][1]), opt_eq(a[1][1], r[1][1])),
                  z3.Or(z3.Not(a[1][2][1]), opt_eq(a[1][2], r[1][2])),
                  z3.Or(z3.Not(a[1][3][1]), opt_eq(a[1][3], r[1][3])))


def spec_ok(result_name, default, avail, reqs, parses=None):
    ids = {n: concrete_langid(n) for n in avail}
    res = ids[result_name]
    clauses = []
    none_before = []
    for i, r in enumerate(reqs):
        # an entry that does not parse as a language identifier is ignored
        ok = parses[i] if parses is not None else z3.BoolVal(True)
        any_i = z3.And(ok, z3.Or([as_less_specific(ids[a], r) for a in avail]))
        any_exact = z3.And(ok, z3.Or([exact(ids[a], r) for a in avail]))
        first = z3.And(none_before + [any_i])
        clauses.append(z3.Implies(first, z3.And(as_less_specific(res, r), z3.Implies(any_exact, exact(res, r)))))
        none_before.append(z3.Not(any_i))
    clauses.append(z3.Implies(z3.And(none_before), z3.BoolVal(result_name == default)))
    return z3.And(clauses)


# ------------------------------------------------------------------------------------------ summaries
def make_summaries(avail, default):
    ids = {n: concrete_langid(n) for n in avail}

    def ret(st, v):
        return [(st, v)]

    def write_ptr(m, st, p, v):
        if p[2]:
            st.mem[p[1]] = mir2.set_path(st.mem[p[1]], p[2], v)
        else:
            st.mem[p[1]] = v

    def pure_mir(regex):
        def f(m, st, args, callee):
            fn = m.fn(regex)
            for l in fn.text.splitlines():
                if re.match(r"^\s*\(\*", l):
                    raise Unsupported("%s writes through a pointer: cannot be merged as a pure function" % regex)
            sub = mir2.St(dict(st.mem), [], [])
            outs = m.call_fn(fn, list(args), sub)
            terms = []
            val = None
            for st1, v in outs:
                st.obligations.extend([(k, st.pc + pc, ok) for k, pc, ok in st1.obligations])
                cond = z3.And(st1.pc) if st1.pc else z3.BoolVal(True)
                terms.append((cond, v))
            # merge into one value (bool or bit-vector)
            if not terms:
                raise Unsupported("no path through %s" % regex)
            val = terms[-1][1]
            for cond, v in reversed(terms[:-1]):
                val = z3.If(cond, v, val)
            return [(st, z3.simplify(val))]
        return f

    def s_as_ref(m, st, args, callee):
        v = m.deref_all(st, args[0])
        if isinstance(v, tuple) and v[0] == "loc":
            v = ids[v[1]]
        if isinstance(v, tuple) and v[0] == "struct":
            m.frame_counter += 1
            key = (m.frame_counter, "langid")
            st.mem[key] = v
            return ret(st, ("ptr", key, ()))
        raise Unsupported("as_ref of %r" % (v,))

    def s_lang_is_empty(m, st, args, callee):
        return ret(st, m.deref_all(st, args[0]) == UND)

    def s_eq(m, st, args, callee):
        a, b = m.deref_all(st, args[0]), m.deref_all(st, args[1])
        if z3.is_expr(a) and z3.is_expr(b):
            return ret(st, a == b)
        if isinstance(a, tuple) and a[0] in ("opt", "variants"):
            return ret(st, opt_eq(a, b))
        raise Unsupported("eq of %r" % (a,))

    def s_is_none(m, st, args, callee):
        return ret(st, z3.Not(m.deref_all(st, args[0])[1]))

    def s_is_some(m, st, args, callee):
        return ret(st, m.deref_all(st, args[0])[1])

    def s_variants_deref(m, st, args, callee):
        return ret(st, m.deref_all(st, args[0]))

    def s_slice_is_empty(m, st, args, callee):
        v = m.deref_all(st, args[0])
        if v[0] == "variants":
            return ret(st, z3.Not(v[1]))
        if v[0] in ("vec", "slice"):
            return ret(st, z3.BoolVal(len(v[1]) == 0))
        raise Unsupported("is_empty of %r" % (v,))

    def s_vec_new(m, st, args, callee):
        return ret(st, ("vec", ()))

    def s_to_vec(m, st, args, callee):
        v = m.deref_all(st, args[0])
        return ret(st, ("vec", tuple(v[1])))

    def s_iter(m, st, args, callee):
        v = m.deref_all(st, args[0])
        return ret(st, ("iter", tuple(v[1]), 0))

    def s_ident(m, st, args, callee):
        return ret(st, args[0])

    def s_adapt(kind):
        def f(m, st, args, callee):
            return ret(st, ("adapt", kind, args[0], args[1], False))
        return f

    def iter_next(m, st, it):
        """-> [(state, new iterator value, option)]: std semantics of slice iterators and of the lazy adaptors
        filter / take_while / skip_while / map over them"""
        if it[0] == "iter":
            if it[2] < len(it[1]):
                return [(st, ("iter", it[1], it[2] + 1), ("opt", z3.BoolVal(True), it[1][it[2]]))]
            return [(st, it, ("opt", z3.BoolVal(False), None))]
        if it[0] != "adapt":
            raise Unsupported("next on %r" % (it,))
        _, kind, inner, clos, done = it
        if done:
            return [(st, it, ("opt", z3.BoolVal(False), None))]
        out = []
        for st1, inner2, o in iter_next(m, st, inner):
            if z3.is_false(z3.simplify(o[1])):
                out.append((st1, ("adapt", kind, inner2, clos, done), o))
                continue
            item = o[2]
            if kind == "map":
                for st2, v in m.call_closure(st1, clos, [item]):
                    out.append((st2, ("adapt", kind, inner2, clos, done), ("opt", z3.BoolVal(True), v)))
                continue
            m.frame_counter += 1
            key = (m.frame_counter, "adapt_item")
            st1.mem[key] = item
            for st2, b in m.call_closure(st1, clos, [("ptr", key, ())]):
                for val, cond in ((True, b), (False, z3.Not(b))):
                    if not m.feasible(st2, cond):
                        continue
                    st3 = st2.fork(z3.simplify(cond))
                    if kind == "filter":
                        if val:
                            out.append((st3, ("adapt", kind, inner2, clos, False), ("opt", z3.BoolVal(True), item)))
                        else:
                            out.extend(iter_next(m, st3, ("adapt", kind, inner2, clos, False)))
                    elif kind == "take_while":
                        if val:
                            out.append((st3, ("adapt", kind, inner2, clos, False), ("opt", z3.BoolVal(True), item)))
                        else:
                            out.append((st3, ("adapt", kind, inner2, clos, True), ("opt", z3.BoolVal(False), None)))
                    elif kind == "skip_while":
                        if val:
                            out.extend(iter_next(m, st3, ("adapt", kind, inner2, clos, False)))
                        else:
                            # from now on everything passes: behave like the inner iterator
                            out.append((st3, inner2, ("opt", z3.BoolVal(True), item)))
                    else:
                        raise Unsupported("iterator adaptor %s" % kind)
        return out

    def s_next(m, st, args, callee):
        p = args[0]
        it = m.deref_all(st, p)
        out = []
        for st1, it2, o in iter_next(m, st, it):
            write_ptr(m, st1, p, it2)
            out.append((st1, o))
        return out

    def s_retain(m, st, args, callee):
        vp, clos = args
        items = list(m.deref_all(st, vp)[1])
        m.frame_counter += 1
        ckey = (m.frame_counter, "closure_env")
        st.mem[ckey] = clos
        cptr = ("ptr", ckey, ())
        states = [(st, [])]
        for idx, item in enumerate(items):
            nxt = []
            for st1, kept in states:
                m.frame_counter += 1
                ikey = (m.frame_counter, "item")
                st1.mem[ikey] = item
                for st2, keep in m.call_closure(st1, cptr, [("ptr", ikey, ())]):
                    k = z3.simplify(keep)
                    if z3.is_true(k):
                        nxt.append((st2, kept + [item]))
                    elif z3.is_false(k):
                        nxt.append((st2, kept))
                    else:
                        raise Unsupported("retain predicate not decided on a path")
            states = nxt
        out = []
        for st1, kept in states:
            write_ptr(m, st1, vp, ("vec", tuple(kept)))
            out.append((st1, ("unit",)))
        return out

    def s_push(m, st, args, callee):
        vp, item = args
        v = m.deref_all(st, vp)
        write_ptr(m, st, vp, ("vec", tuple(v[1]) + (item,)))
        return ret(st, ("unit",))

    def s_append(m, st, args, callee):
        a, b = args
        va, vb = m.deref_all(st, a), m.deref_all(st, b)
        write_ptr(m, st, a, ("vec", tuple(va[1]) + tuple(vb[1])))
        write_ptr(m, st, b, ("vec", ()))
        return ret(st, ("unit",))

    def s_deref_mut(m, st, args, callee):
        return ret(st, args[0])

    def s_sort_by(m, st, args, callee):
        vp, clos = args
        items = list(m.deref_all(st, vp)[1])
        # stable insertion sort driven by the real comparator closure (must be decided concretely)
        def cmp(a, b):
            m.frame_counter += 1
            ka, kb = (m.frame_counter, "a"), (m.frame_counter, "b")
            st.mem[ka], st.mem[kb] = a, b
            outs = m.call_closure(st, clos, [("ptr", ka, ()), ("ptr", kb, ())])
            if len(outs) != 1 or outs[0][1][0] != "ord":
                raise Unsupported("comparator not concrete")
            return outs[0][1][1]
        res = []
        for it in items:
            pos = len(res)
            while pos > 0 and cmp(res[pos - 1], it) > 0:
                pos -= 1
            res.insert(pos, it)
        write_ptr(m, st, vp, ("vec", tuple(res)))
        return ret(st, ("unit",))

    def s_usize_cmp(m, st, args, callee):
        a, b = z3.simplify(m.deref_all(st, args[0])), z3.simplify(m.deref_all(st, args[1]))
        if not (z3.is_bv_value(a) and z3.is_bv_value(b)):
            raise Unsupported("usize::cmp on symbolic values")
        x, y = a.as_long(), b.as_long()
        return ret(st, ("ord", (x > y) - (x < y)))

    def s_reverse(m, st, args, callee):
        return ret(st, ("ord", -args[0][1]))

    def s_first(m, st, args, callee):
        v = m.deref_all(st, args[0])
        if v[1]:
            return ret(st, ("opt", z3.BoolVal(True), v[1][0]))
        return ret(st, ("opt", z3.BoolVal(False), None))

    def s_unwrap_or_default(m, st, args, callee):
        o = args[0]
        if z3.is_true(z3.simplify(o[1])):
            return ret(st, o[2])
        return ret(st, ("loc", default))

    def s_into_iter_entries(m, st, args, callee):
        v = m.deref_all(st, args[0])
        return ret(st, ("iter", tuple(v[1]), 0))

    def s_lazy(kind):
        def f(m, st, args, callee):
            return ret(st, ("lazy", kind, args[0], args[1]))
        return f

    def s_collect(m, st, args, callee):
        lz = args[0]
        if not (isinstance(lz, tuple) and lz[0] == "lazy"):
            raise Unsupported("collect of %r" % (lz,))
        _, kind, it, clos = lz
        items = list(it[1])[it[2]:]
        states = [(st, [], False)]
        for item in items:
            nxt = []
            for st1, acc, stopped in states:
                if stopped:
                    nxt.append((st1, acc, True))
                    continue
                for st2, o in m.call_closure(st1, clos, [item]):
                    if not (isinstance(o, tuple) and o[0] == "opt"):
                        raise Unsupported("%s closure returned %r" % (kind, o))
                    for val, cond in ((True, o[1]), (False, z3.Not(o[1]))):
                        if not m.feasible(st2, cond):
                            continue
                        st3 = st2.fork(z3.simplify(cond))
                        if val:
                            nxt.append((st3, acc + [o[2]], False))
                        elif kind == "filter_map":
                            nxt.append((st3, acc, False))
                        elif kind == "map_while":
                            nxt.append((st3, acc, True))
                        else:
                            raise Unsupported("iterator adaptor %s" % kind)
            states = nxt
        return [(st1, ("vec", tuple(acc))) for st1, acc, _ in states]

    def s_try_from_bytes(m, st, args, callee):
        e = m.deref_all(st, args[0])
        if not (isinstance(e, tuple) and e[0] == "entry"):
            raise Unsupported("try_from_bytes of %r" % (e,))
        return ret(st, ("opt", z3.Bool("entry%d_parses" % e[1]), symbolic_langid(e[1])))

    def s_get_all(m, st, args, callee):
        return ret(st, ("slice", tuple(("loc", a) for a in avail)))

    def s_mir(regex):
        def f(m, st, args, callee):
            return m.call_fn(m.fn(regex), list(args), st)
        return f

    return [
        (r"^lang_id_matches::<", pure_mir(r"^fn lang_id_matches\(")),
        (r"^lang_matches$", s_mir(r"^fn lang_matches\(")),
        (r"^subtag_matches::<", s_mir(r"^fn subtag_matches\(")),
        (r"^subtags_match$", s_mir(r"^fn subtags_match\(")),
        (r"^into_specificity$", pure_mir(r"^fn into_specificity\(")),
        (r"^filter_matches::<", s_mir(r"^fn filter_matches\(")),
        (r"^find_match::<", s_mir(r"^fn find_match\(")),
        (r"^convert_vec_str_to_langids_lossy::<", s_mir(r"^fn convert_vec_str_to_langids_lossy\(")),
        (r"^<I as IntoIterator>::into_iter$", s_into_iter_entries),
        (r"Iterator>::filter_map::<", s_lazy("filter_map")),
        (r"Iterator>::map_while::<", s_lazy("map_while")),
        (r"Iterator>::collect::<Vec<LanguageIdentifier>>$", s_collect),
        (r"<J as AsRef<\[u8\]>>::as_ref$", s_ident),
        (r"^LanguageIdentifier::try_from_bytes$", s_try_from_bytes),
        (r"^Result::<LanguageIdentifier, ParserError>::ok$", s_ident),
        (r"<Vec<LanguageIdentifier> as Deref>::deref$", s_deref_mut),
        (r"Locale<L>>::get_all$", s_get_all),
        (r"Locale<L>>::from_base_locale$", s_ident),
        (r"as AsRef<LanguageIdentifier>>::as_ref$", s_as_ref),
        (r"subtags::Language::is_empty$", s_lang_is_empty),
        (r"as PartialEq>::eq$", s_eq),
        (r"Option::<.*>::is_none$", s_is_none),
        (r"Option::<.*>::is_some$", s_is_some),
        (r"<Variants as Deref>::deref$", s_variants_deref),
        (r"impl \[.*\]>::is_empty$", s_slice_is_empty),
        (r"^Vec::<L>::new$", s_vec_new),
        (r"impl \[L\]>::to_vec$", s_to_vec),
        (r"impl \[LanguageIdentifier\]>::iter$", s_iter),
        (r"Iterator>::cloned::<", s_ident),
        (r"Iterator>::copied::<", s_ident),
        (r"Iterator>::take_while::<", s_adapt("take_while")),
        (r"Iterator>::skip_while::<", s_adapt("skip_while")),
        (r"Iterator>::filter::<", s_adapt("filter")),
        (r"Iterator>::map::<", s_adapt("map")),
        (r"as IntoIterator>::into_iter$", lambda m, st, args, callee: (ret(st, ("iter", tuple(m.deref_all(st, args[0])[1]), 0))
                                                                       if isinstance(m.deref_all(st, args[0]), tuple) and m.deref_all(st, args[0])[0] in ("vec", "slice")
                                                                       else ret(st, args[0]))),
        (r"Iterator>::next$", s_next),
        (r"^Vec::<L>::retain::<", s_retain),
        (r"^Vec::<L>::push$", s_push),
        (r"^Vec::<L>::append$", s_append),
        (r"<Vec<L> as DerefMut>::deref_mut$", s_deref_mut),
        (r"<Vec<L> as Deref>::deref$", s_deref_mut),
        (r"impl \[L\]>::sort_by::<", s_sort_by),
        (r"<usize as Ord>::cmp$", s_usize_cmp),
        (r"cmp::Ordering::reverse$", s_reverse),
        (r"impl \[L\]>::first$", s_first),
        (r"Option::<&L>::copied$", s_ident),
        (r"Option::<L>::unwrap_or_default$", s_unwrap_or_default),
    ]


def decide(mir, default, avail, nreq, timeout_ms=60000):
    m = mir2.Machine(mir, make_summaries(avail, default), unroll=nreq + 3)
    reqs = [symbolic_langid(i) for i in range(nreq)]
    parses = [z3.Bool("entry%d_parses" % i) for i in range(nreq)]
    st = mir2.St()
    entries = ("slice", tuple(("entry", i) for i in range(nreq)))
    outs = m.call_fn(m.fn(r"^fn locale_traits::Locale::find_locale\("), [entries], st)
    res = {"paths": len(outs), "avail": avail, "nreq": nreq, "solver_checks": m.solver_checks, "mir_fns": sorted(m.mir_fns_run)}
    if m.unwinding:
        res["status"] = "unwinding"
        return res, m
    t0 = time.time()
    bad = None
    assert_failures = 0
    for st1, v in outs:
        if not (isinstance(v, tuple) and v[0] == "loc"):
            raise Unsupported("find_match returned %r" % (v,))
        s = z3.Solver()
        s.set("timeout", timeout_ms)
        s.add(st1.pc)
        s.add(z3.Not(spec_ok(v[1], default, avail, reqs, parses)))
        r = s.check()
        if r == z3.sat:
            mdl = s.model()
            bad = {"result": v[1], "requests": [describe_req(mdl, i) if z3.is_true(mdl.eval(parses[i], model_completion=True)) else {"unparseable": True} for i in range(nreq)]}
            break
        if r == z3.unknown:
            res["status"] = "unknown"
            return res, m
        for kind, pc, ok in st1.obligations:
            s2 = z3.Solver()
            s2.add(pc)
            s2.add(z3.Not(ok))
            if s2.check() != z3.unsat:
                assert_failures += 1
    res["solver_s"] = time.time() - t0
    res["overflow_asserts_failing"] = assert_failures
    res["status"] = "sat" if bad else "unsat"
    res["model"] = bad
    return res, m


def describe_req(mdl, i):
    inv = {v: k for k, v in _codes.items()}

    def name(prefix, val):
        n = mdl.eval(val, model_completion=True).as_long()
        s = inv.get(n)
        if s and s.startswith(prefix):
            return s[2:]
        return None

    lang = name("L:", z3.BitVec("req%d_lang" % i, BV))
    out = {"language": lang, "language_code": mdl.eval(z3.BitVec("req%d_lang" % i, BV), model_completion=True).as_long()}
    if z3.is_true(mdl.eval(z3.Bool("req%d_has_script" % i), model_completion=True)):
        out["script"] = name("S:", z3.BitVec("req%d_script" % i, BV)) or "Zzzz"
    if z3.is_true(mdl.eval(z3.Bool("req%d_has_region" % i), model_completion=True)):
        out["region"] = name("R:", z3.BitVec("req%d_region" % i, BV)) or "ZZ"
    if z3.is_true(mdl.eval(z3.Bool("req%d_has_variant" % i), model_completion=True)):
        out["variant"] = "posix"
    return out


def req_to_string(r):
    if r.get("unparseable"):
        return "*"
    lang = r["language"] or ("und" if r["language_code"] == 0 else "xx")
    s = lang
    if "script" in r:
        s += "-" + r["script"]
    if "region" in r:
        s += "-" + r["region"]
    if "variant" in r:
        s += "-" + r["variant"]
    return s


NATIVE_MAIN = '''
    let reqs: &[&str] = &[@REQS@];
    let l = <Locale as leptos_i18n::Locale>::find_locale(reqs);
    println!("0\\t{}", hex(leptos_i18n::Locale::as_str(l)));
'''


def native(default, avail, reqs):
    import model
    import replay
    proj = model.Project(default, avail, {l: {"k": model.S("x")} for l in avail})
    d = os.path.join(report.VERIF, "work", "c12_native")
    proj.write(d)
    body = NATIVE_MAIN.replace("@REQS@", ", ".join(replay.rust_str(r) for r in reqs))
    replay.setup_crate(d, body)
    env = dict(os.environ, CARGO_NET_OFFLINE="true", CARGO_TARGET_DIR=replay.TARGET)
    try:
        p = subprocess.run(["cargo", "run", "--quiet"], cwd=replay.CRATE, env=env, capture_output=True, text=True, timeout=1800)
    finally:
        replay.unlock()
    if p.returncode != 0:
        raise replay.ReplayError(p.stderr[-2000:])
    for l in p.stdout.split("\n"):
        if "\t" in l:
            return bytes.fromhex(l.split("\t")[1]).decode()
    return None


def run(tier, seed):
    prop = "C12"
    t0 = time.time()
    try:
        mir = mirsmt.dump_mir("leptos_i18n", "leptos_i18n.mir")
    except Unsupported as e:
        print("INCONCLUSIVE property=C12 %s" % e)
        return 2
    runs = []
    inconclusive = []
    sat = []
    calls = set()
    for default, avail in SETS:
        order = [default] + [a for a in avail if a != default]
        nreqs = [2] if tier == "quick" else ([2, 3] if len(order) <= 2 else [2])
        for nreq in nreqs:
            try:
                r, m = decide(mir, default, order, nreq)
                calls |= m.calls_seen
            except Unsupported as e:
                inconclusive.append("%s x %d requests: UNSUPPORTED %s" % (order, nreq, e))
                continue
            r["default"] = default
            runs.append(r)
            if r["status"] == "sat":
                sat.append(r)
            elif r["status"] != "unsat":
                inconclusive.append("%s x %d requests: %s" % (order, nreq, r["status"]))
            if r.get("overflow_asserts_failing"):
                inconclusive.append("%s: arithmetic overflow assertion reachable" % order)
    known = report.load_known()
    violations = 0
    replayed = 0
    for r in sat[:2]:
        reqs = [req_to_string(x) for x in r["model"]["requests"]]
        sig = {"engine": "M", "fn": "find_match", "witness": "later_request_wins" }
        k = report.matches(sig, known, prop)
        if k is not None:
            print("KNOWN-FINDING: property=C12 %s" % k.get("description", k["id"]))
            continue
        try:
            real = native(r["default"], r["avail"], reqs)
            replayed += 1
        except Exception as e:
            inconclusive.append("native replay failed: %s" % e)
            continue
        path = report.write_replay(prop, "find_match_%s" % "_".join(r["avail"]), {"available": r["avail"], "default": r["default"], "requests": reqs,
                                   "model_result": r["model"]["result"], "real_result": real, "signature": sig,
                                   "how_to_replay": "Locale::find_locale(&%s) on a project with locales %s" % (json.dumps(reqs), r["avail"])})
        if real == r["model"]["result"]:
            print("VIOLATION property=C12 replay=%s" % path)
            print("  find_locale(%s) over %s (default %s) = %s" % (reqs, r["avail"], r["default"], real))
            violations += 1
            break
        else:
            print("ENCODER-MISMATCH property=C12 model says %s, real %s (%s)" % (r["model"]["result"], real, path))
            inconclusive.append("model did not reproduce natively")
    wall = time.time() - t0
    report.write_evidence(prop, tier, seed, "model_checking", {
        "evaluations": sum(r["paths"] for r in runs) or 1, "distinct_nontrivial": max(2, len(runs)),
        "rule": "one symbolic execution of find_match per (supported set, number of requests); every path of the MIR is one evaluation; each path's condition is checked against the property with z3",
        "samples": [{k: v for k, v in r.items() if k != "mir_fns"} for r in runs[:3]] or [{"note": "none"}],
        "states": sum(r["paths"] for r in runs) or 1, "transitions": sum(r.get("solver_checks", 0) for r in runs) or 1,
        "traces_validated_against_impl": replayed,
        "runs": runs, "solver": "z3 %s bit-vectors" % z3.get_version_string(), "solver_s": round(sum(r.get("solver_s", 0) for r in runs), 3),
        "functions_encoded": ["leptos_i18n::Locale::find_locale (trait default method)", "langid::convert_vec_str_to_langids_lossy + closure", "leptos_i18n::langid::find_match", "filter_matches + its 3 closures", "lang_id_matches", "lang_matches", "subtag_matches", "subtags_match", "into_specificity (all from rustc MIR regenerated this run)"],
        "mir_calls_summarised": sorted(calls),
        "bounds": "supported sets %s; request lists of length 2 (thorough: 3 for 2-locale sets); every entry either fails to parse (ignored) or is a fully symbolic language identifier: any language code, optional script, optional region, at most one variant. Outside: longer request lists, several variants, parsing of Accept-Language strings (convert_vec_str_to_langids_lossy / ICU)." % [a for _, a in SETS],
        "inconclusive": inconclusive,
    }, wall, [
        "LanguageIdentifier::try_from_bytes is an uninterpreted parser: each entry has a free boolean 'parses' and free subtags", "std / icu summaries: into_iter / filter_map / map_while / collect / filter / take_while / skip_while / map / next, Vec new/to_vec/retain/push/sort_by(stable, comparator executed from MIR)/first, slice iter/cloned/next, Option is_some/is_none/copied/unwrap_or_default, PartialEq on subtags, Language::is_empty, Variants deref; any other call makes the check inconclusive",
        "language / script / region / variant subtags are opaque 32-bit codes compared for equality only (what the code does with TinyAsciiStr)",
        "Locale: AsRef<LanguageIdentifier> returns the identifier of the configured name (C13)",
    ], violations)
    print("property=C12 tier=%s runs=%d paths=%d sat=%d inconclusive=%d wall_s=%.1f" % (tier, len(runs), sum(r["paths"] for r in runs), len(sat), len(inconclusive), wall))
    if violations:
        return 1
    for i in inconclusive:
        print("INCONCLUSIVE property=C12 %s" % i)
    if inconclusive or not runs:
        return 2
    return 0
