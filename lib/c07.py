"""C07: missing / surplus key diagnostics.

M (deciding, kernel): `Locale::merge` (leptos_i18n_parser/src/parse_locales/locale.rs) executed from rustc MIR for one
level of keys: the default locale has n keys; the merged locale has each of them or not (symbolic), plus m keys of its own,
each present or not (symbolic); `default_to` is Implicit or Explicit (symbolic).  z3 proves per path that the warnings
emitted are exactly  Missing(k) for every default key the locale lacks when the locale inherits from nothing explicitly,
Surplus(x) for every own key that is present, one each, in that order of kinds; nested levels are the same function
applied again (`ParsedValue::merge` -> `Locale::merge`), summarised here as a call that emits nothing.

Concrete stage (supporting): generated projects (nested subkey groups, namespaces, null, inherits, plural forms, a group
where the default has a value) through the real parser (`verif-host warnings` = parse_locales); the list of diagnostics
must be exactly the expected multiset, none for the default locale, an error for the group / value mismatch.
"""
import itertools
import json
import os
import random
import re
import shutil
import subprocess
import sys
import time

import z3

import hostrun
import mir2
import mirsmt
import report
import second
from engine_g import Case
from mirsmt import Unsupported
from model import (Project, S, V, SUB, NULL, PLURAL, NUM)


# ------------------------------------------------------------------------------------------ expectation from the project
def expected_warnings(proj):
    """-> ("ok", sorted list of (kind, locale, "ns::a.b")) | ("err",)"""
    out = []
    err = []

    def is_group(av):
        return av is not None and av[0] == "sub"

    def walk(ns, loc, dflt, mine, prefix, explicit):
        for k, dv in dflt.items():
            path = prefix + [k]
            if k not in mine:
                if not explicit:
                    out.append(("missing", loc, pstr(ns, path)))
                continue
            mv = mine[k]
            if mv[0] == "null":
                continue
            if is_group(dv) != is_group(mv):
                err.append((loc, pstr(ns, path)))
                continue
            if is_group(dv):
                walk(ns, loc, dv[1], mv[1], path, explicit)
        for k in mine:
            if k not in dflt:
                out.append(("surplus", loc, pstr(ns, prefix + [k])))

    def pstr(ns, path):
        return ("%s::" % ns if ns else "") + ".".join(path)

    for ns in (proj.namespaces or [None]):
        files = proj.files[ns] if ns else proj.files
        dflt = files[proj.default]
        for loc in proj.locale_order():
            if loc == proj.default:
                continue
            walk(ns, loc, dflt, files[loc], [], loc in (proj.inherits or {}))
    if err:
        return ("err",)
    return ("ok", sorted(out))


# ------------------------------------------------------------------------------------------ generated projects
def gen_projects(tier, seed):
    rng = random.Random(7000 + seed)
    cases = []

    def leaf(tag):
        return rng.choice([S(tag), S(tag + " ", V("x")), NUM(3)])

    def dtree(depth, tag):
        d = {}
        for i in range(rng.randrange(2, 4)):
            k = "k%d" % i
            d[k] = leaf(tag + k)
        if depth > 0:
            for i in range(rng.randrange(1, 3)):
                d["g%d" % i] = SUB(dtree(depth - 1, tag + "g%d." % i))
        return d

    def variant(d, tag, allow_mismatch):
        """another locale's version of the default tree d"""
        out = {}
        for k, v in d.items():
            r = rng.random()
            if r < 0.18:
                continue                              # absent
            if r < 0.28:
                out[k] = NULL()                       # explicit null
                continue
            if v[0] == "sub":
                if allow_mismatch and r > 0.97:
                    out[k] = S(tag + " value where the default has a group")
                else:
                    out[k] = SUB(variant(v[1], tag, allow_mismatch))
            else:
                if allow_mismatch and r > 0.985:
                    out[k] = SUB({"z": S(tag + " group where the default has a value")})
                else:
                    out[k] = leaf(tag + k)
        for i in range(rng.randrange(0, 3)):
            if rng.random() < 0.5:
                out["extra%d" % i] = leaf(tag + "extra")
            else:
                out["xg%d" % i] = SUB({"e": leaf(tag + "e")})
        return out

    n = 40 if tier == "quick" else 200
    for pi in range(n):
        locs = ["en", "fr", "de", "pt-BR"][: rng.randrange(2, 5)]
        inherits = {}
        for l in locs[1:]:
            if rng.random() < 0.35:
                inherits[l] = rng.choice([x for x in locs if x != l])
        # no inheritance cycles through non-default locales is not required by the parser; keep simple chains
        mismatch = pi % 10 == 9
        if pi % 4 == 3:
            nss = ["common", "home"]
            files = {}
            for ns in nss:
                d = dtree(1, ns + ".")
                files[ns] = {locs[0]: d}
                for l in locs[1:]:
                    files[ns][l] = variant(d, l + "." + ns + ".", mismatch)
            proj = Project(locs[0], locs, files, inherits=inherits or None, namespaces=nss)
        else:
            d = dtree(2, "")
            files = {locs[0]: d}
            for l in locs[1:]:
                files[l] = variant(d, l + ".", mismatch)
            proj = Project(locs[0], locs, files, inherits=inherits or None)
        cases.append(Case(proj, "c07_gen/%d" % pi, roles={"*": "key_sets"}))
    # a key that is a group in one locale and a value in another is an error, both ways, also nested and in a namespace
    for i, (dv, mv) in enumerate([(SUB({"a": S("a")}), S("value")), (S("value"), SUB({"a": S("a")}))]):
        cases.append(Case(Project("en", ["en", "fr"], {"en": {"k": dv, "z": S("z")}, "fr": {"k": mv, "z": S("z")}}), "c07_mismatch/%d" % i, roles={"*": "group_vs_value"}))
        cases.append(Case(Project("en", ["en", "fr", "de"], {"en": {"g": SUB({"k": dv}), "z": S("z")}, "fr": {"g": SUB({"k": dv}), "z": S("z")}, "de": {"g": SUB({"k": mv})}},
                                  inherits={"de": "fr"}), "c07_mismatch/nested%d" % i, roles={"*": "group_vs_value"}))
    # plural forms count as their base key; a lone form does not
    files = {"en": {"items_one": S("one"), "items_other": S("others ", V("count")), "k": S("k")},
             "fr": {"items_one": S("un"), "items_other": S("autres"), "items_many": S("beaucoup")},
             "de": {"k": S("k de"), "items_other": S("lonely other")}}
    cases.append(Case(Project("en", ["en", "fr", "de"], files), "c07_plural/0", roles={"*": "plural_merging"}))
    return cases


def expected_for_case(c):
    if c.tag.startswith("c07_plural"):
        # fr: misses k; its three forms merge into `items` (no surplus). de: `items_other` alone is a normal key -> surplus, and `items` is missing
        return ("ok", sorted([("missing", "fr", "k"), ("missing", "de", "items"), ("surplus", "de", "items_other")]))
    return expected_warnings(c.project)


def run_warnings(dirs):
    p = subprocess.run([hostrun.HOST_BIN, "warnings"], input="\n".join(dirs) + "\n", capture_output=True, text=True, env=hostrun.ENV)
    res = {}
    for l in p.stdout.split("\n"):
        try:
            j = json.loads(l)
            res[j["dir"]] = j
        except Exception:
            pass
    return res


def concrete_stage(tier, seed):
    cases = gen_projects(tier, seed)
    work = os.path.join(hostrun.VERIF, "work", "C07")
    if os.path.isdir(work):
        shutil.rmtree(work)
    for c in cases:
        c.dir = os.path.join(work, c.tag.replace("/", "_"))
        c.project.write(c.dir)
    res = run_warnings([c.dir for c in cases])
    bad, inconclusive = [], []
    stats = {"projects": len(cases), "diagnostics_compared": 0, "rejected_as_expected": 0}
    for c in cases:
        r = res.get(c.dir)
        exp = expected_for_case(c)
        if not r or r.get("status") == "panic":
            bad.append({"case": c.tag, "project_dir": c.dir, "problem": "the parser panicked / gave no answer", "real": r})
            continue
        if exp[0] == "err":
            if r["status"] == "error":
                stats["rejected_as_expected"] += 1
            else:
                bad.append({"case": c.tag, "project_dir": c.dir, "problem": "a key that is a subkey group in one locale and a value in another was accepted", "real": r.get("warnings")})
            continue
        if r["status"] != "ok":
            bad.append({"case": c.tag, "project_dir": c.dir, "problem": "valid project rejected", "real": r.get("error")})
            continue
        got = sorted((w["kind"], w.get("locale"), w.get("path")) for w in r["warnings"] if w["kind"] in ("missing", "surplus"))
        stats["diagnostics_compared"] += len(exp[1])
        if got != [tuple(x) for x in exp[1]]:
            extra = [x for x in got if x not in exp[1]]
            lacking = [x for x in exp[1] if x not in got]
            dup = sorted({x for x in got if got.count(x) > 1})
            bad.append({"case": c.tag, "project_dir": c.dir, "problem": "diagnostics differ", "unexpected": extra[:6], "not_reported": lacking[:6], "reported_twice": dup[:4]})
    return stats, bad, inconclusive


# ------------------------------------------------------------------------------------------ the kernel from MIR
D8 = z3.BitVecSort(8)


class M07(mir2.Machine):
    def rvalue(self, st, frame, r, fn=None, stmt=None):
        r = r.strip()
        m = re.match(r"^Warning::(MissingKey|SurplusKey) \{ locale: (.*), key_path: (.*) \}$", r)
        if m:
            return ("warning", "missing" if m.group(1) == "MissingKey" else "surplus",
                    self.operand(st, frame, mirsmt.parse_operand(m.group(2))), self.operand(st, frame, mirsmt.parse_operand(m.group(3))))
        if r == "ParsedValue::Default":
            return ("pv", "Default")
        m = re.match(r"^(?:std::result::)?Result::<.*>::(Ok|Err)\((.*)\)$", r)
        if m:
            return ("result", m.group(1), self.operand(st, frame, mirsmt.parse_operand(m.group(2))))
        return super().rvalue(st, frame, r, fn, stmt)

    def operand(self, st, frame, o):
        if o[0] == "const" and o[1] == "()":
            return ("unit",)
        return super().operand(st, frame, o)

    def switch_cond(self, v, val):
        if isinstance(v, tuple) and v[0] == "discr" and isinstance(v[1], tuple) and v[1][0] == "result":
            return z3.BoolVal((v[1][1] == "Ok") == (val == 0))
        return super().switch_cond(v, val)


def decide_kernel(mir, n, m_own, timeout_ms=30000):
    """default level with keys d0..d{n-1}; the locale has d_i iff has[i], and own keys x0..x{m-1} iff own[j]."""
    has = [z3.Bool("locale_has_d%d" % i) for i in range(n)]
    own = [z3.Bool("locale_has_own_x%d" % j) for j in range(m_own)]
    dt = z3.Const("default_to", D8)                       # 0 = Explicit (an `inherits` entry), 1 = Implicit
    merge_fails = [z3.Bool("nested_merge_of_d%d_fails" % i) for i in range(n)]
    dnames = ["d%d" % i for i in range(n)]
    xnames = ["x%d" % j for j in range(m_own)]

    def ret(st, v):
        return [(st, v)]

    def write_ptr(m, st, p, v):
        cur = m.mem_get(st, p[1])
        st.mem[p[1]] = mir2.set_path(cur, p[2], v) if p[2] else v

    def s_ident(m, st, args, callee):
        return ret(st, args[0])

    def s_clone(m, st, args, callee):
        return ret(st, m.deref_all(st, args[0]))

    def s_into_iter(m, st, args, callee):
        v = m.deref_all(st, args[0])
        if v[0] == "dmap":
            return ret(st, ("iter", tuple(("tuple", (name, ("lv", name))) for name in v[1]), 0))
        if v[0] == "kiter":
            return ret(st, v)
        raise Unsupported("into_iter over %r" % (v[0],))

    def s_next(m, st, args, callee):
        p = args[0]
        it = m.deref_all(st, p)
        if it[0] == "iter":
            if it[2] >= len(it[1]):
                return ret(st, ("opt", z3.BoolVal(False), None))
            write_ptr(m, st, p, ("iter", it[1], it[2] + 1))
            return ret(st, ("opt", z3.BoolVal(True), it[1][it[2]]))
        if it[0] == "kiter":
            # keys of the locale's map, in key order; an entry whose presence is symbolic forks
            outs = []
            entries, pos = it[1], it[2]
            cur = st
            while pos < len(entries):
                name, present = entries[pos]
                present = z3.simplify(present)
                if m.feasible(cur, present):
                    st_yes = cur.fork(present) if not z3.is_true(present) else cur.copy()
                    write_ptr(m, st_yes, p, ("kiter", entries, pos + 1))
                    outs.append((st_yes, ("opt", z3.BoolVal(True), name)))
                if z3.is_true(present) or not m.feasible(cur, z3.Not(present)):
                    return outs
                cur = cur.fork(z3.Not(present))
                pos += 1
            write_ptr(m, cur, p, ("kiter", entries, pos))
            outs.append((cur, ("opt", z3.BoolVal(False), None)))
            return outs
        raise Unsupported("next on %r" % (it[0],))

    def s_push_key(m, st, args, callee):
        p, k = args
        cur = m.deref_all(st, p)
        write_ptr(m, st, p, ("path", tuple(cur[1]) + (m.deref_all(st, k),)))
        return ret(st, ("unit",))

    def s_pop_key(m, st, args, callee):
        p = args[0]
        cur = m.deref_all(st, p)
        if not cur[1]:
            return ret(st, ("opt", z3.BoolVal(False), None))
        write_ptr(m, st, p, ("path", tuple(cur[1][:-1])))
        return ret(st, ("opt", z3.BoolVal(True), cur[1][-1]))

    def s_entry(m, st, args, callee):
        mp, k = args
        k = m.deref_all(st, k)
        lm = m.deref_all(st, mp)
        present = dict(lm[1]).get(k)
        if present is None:
            raise Unsupported("entry for unknown key %r" % (k,))
        return ret(st, ("symenum", z3.If(present, z3.BitVecVal(1, 8), z3.BitVecVal(0, 8)), (("entry", mp, k),)))

    def s_into_mut(m, st, args, callee):
        e = m.deref_all(st, args[0])
        return ret(st, ("valref", e[2]))

    def s_vacant_insert(m, st, args, callee):
        e = m.deref_all(st, args[0])
        mp, k = e[1], e[2]
        lm = m.deref_all(st, mp)
        write_ptr(m, st, mp, ("lmap", tuple((nm, z3.BoolVal(True) if nm == k else pr) for nm, pr in lm[1])))
        return ret(st, ("valref", k))

    def s_emit(m, st, args, callee):
        w = args[1]
        lp = args[0]
        cur = m.deref_all(st, lp)
        write_ptr(m, st, lp, ("log", tuple(cur[1]) + ((w[1], w[2], tuple(m.deref_all(st, w[3])[1])),)))
        return ret(st, ("unit",))

    def s_pv_merge(m, st, args, callee):
        # the nested level: the same function on the nested locale (or a type mismatch error); emits nothing here
        v = args[0]
        name = v[1] if isinstance(v, tuple) and v[0] == "valref" else None
        if name in dnames:
            f = merge_fails[dnames.index(name)]
            outs = []
            if m.feasible(st, f):
                outs.append((st.fork(f), ("result", "Err", ("nested error",))))
            if m.feasible(st, z3.Not(f)):
                outs.append((st.fork(z3.Not(f)), ("result", "Ok", ("unit",))))
            return outs
        raise Unsupported("ParsedValue::merge on %r" % (v,))

    def s_branch(m, st, args, callee):
        r = args[0]
        if r[1] == "Ok":
            return ret(st, ("cf", z3.BoolVal(True), r[2]))
        return ret(st, ("cf", z3.BoolVal(False), ("result", "Err", r[2])))

    def s_from_residual(m, st, args, callee):
        r = m.deref_all(st, args[0])
        return ret(st, ("result", "Err", r[2]))

    def s_keys(m, st, args, callee):
        lm = m.deref_all(st, args[0])
        return ret(st, ("kiter", tuple(sorted(lm[1], key=lambda e: e[0])), 0))

    def s_len(m, st, args, callee):
        v = m.deref_all(st, args[0])
        if v[0] == "dmap":
            return ret(st, z3.BitVecVal(len(v[1]), 64))
        if v[0] == "lmap":
            tot = z3.BitVecVal(0, 64)
            for _, pr in v[1]:
                tot = tot + z3.If(pr, z3.BitVecVal(1, 64), z3.BitVecVal(0, 64))
            return ret(st, z3.simplify(tot))
        raise Unsupported("len of %r" % (v[0],))

    def s_is_empty(m, st, args, callee):
        v = m.deref_all(st, args[0])
        if v[0] == "dmap":
            return ret(st, z3.BoolVal(len(v[1]) == 0))
        if v[0] == "lmap":
            return ret(st, z3.Not(z3.Or([pr for _, pr in v[1]])) if v[1] else z3.BoolVal(True))
        raise Unsupported("is_empty of %r" % (v[0],))

    def s_contains_key(m, st, args, callee):
        dm = m.deref_all(st, args[0])
        k = m.deref_all(st, args[1])
        return ret(st, z3.BoolVal(k in dm[1]))

    summaries = [
        (r"^<&mut BTreeMap<key::Key, LocaleValue> as IntoIterator>::into_iter$", s_into_iter),
        (r"^<std::collections::btree_map::Keys<'_, key::Key, ParsedValue> as IntoIterator>::into_iter$", s_into_iter),
        (r"as Iterator>::next$", s_next),
        (r"^<key::Key as Clone>::clone$", s_clone),
        (r"^<KeyPath as Clone>::clone$", s_clone),
        (r"^KeyPath::push_key$", s_push_key),
        (r"^KeyPath::pop_key$", s_pop_key),
        (r"^BTreeMap::<key::Key, ParsedValue>::entry$", s_entry),
        (r"^std::collections::btree_map::OccupiedEntry::<'_, key::Key, ParsedValue>::into_mut$", s_into_mut),
        (r"^std::collections::btree_map::VacantEntry::<'_, key::Key, ParsedValue>::insert$", s_vacant_insert),
        (r"^Warnings::emit_warning$", s_emit),
        (r"^ParsedValue::merge$", s_pv_merge),
        (r"as Try>::branch$", s_branch),
        (r"as FromResidual<.*>>::from_residual$", s_from_residual),
        (r"^BTreeMap::<key::Key, ParsedValue>::keys$", s_keys),
        (r"^BTreeMap::<key::Key, LocaleValue>::contains_key::<key::Key>$", s_contains_key),
        (r"^BTreeMap::<key::Key, (LocaleValue|ParsedValue)>::len$", s_len),
        (r"^BTreeMap::<key::Key, (LocaleValue|ParsedValue)>::is_empty$", s_is_empty),
    ]
    m = M07(mir, summaries, unroll=n + m_own + 4, max_paths=20000)
    st = mir2.St()

    def cell(name, v):
        m.frame_counter += 1
        k = (m.frame_counter, name)
        st.mem[k] = v
        return ("ptr", k, ())

    lmap = ("lmap", tuple([(nm, has[i]) for i, nm in enumerate(dnames)] + [(nm, own[j]) for j, nm in enumerate(xnames)]))
    locale = cell("locale", ("struct", (("name",), ("name",), lmap, ("strings",), ("count",))))
    keys = cell("default_keys", ("struct", (("dmap", tuple(dnames)),)))
    kp = cell("key_path", ("path", ("prefix",)))
    log = cell("warnings", ("log", ()))
    st.pc.append(z3.ULE(dt, 1))
    fn = m.fn(r"^fn locale::<impl at [^>]*>::merge\(_1: &mut locale::Locale")
    outs = m.call_fn(fn, [locale, keys, ("locale_name",), ("symenum", dt, (("key",),)), kp, ("strings",), log], st)
    res = {"n_default_keys": n, "n_own_keys": m_own, "paths": len(outs), "status": "unsat", "solver_checks": 0, "solver_s": 0.0, "ok_paths": 0}
    if not outs:
        raise Unsupported("no path")
    implicit = dt == 1
    for st1, v in outs:
        v = m.deref_all(st1, v)
        if not (isinstance(v, tuple) and v[0] == "result"):
            raise Unsupported("merge returned %r" % (v,))
        got = list(st1.mem[log[1]][1])
        path_after = st1.mem[kp[1]][1]
        if v[1] == "Ok":
            res["ok_paths"] += 1
            claims = [z3.BoolVal(path_after == ("prefix",)), z3.Not(z3.Or(merge_fails)) if merge_fails else z3.BoolVal(True)]
            for i, nm in enumerate(dnames):
                cnt = got.count(("missing", ("locale_name",), ("prefix", nm)))
                claims.append(z3.If(z3.And(z3.Not(has[i]), implicit), z3.BoolVal(cnt == 1), z3.BoolVal(cnt == 0)))
            for j, nm in enumerate(xnames):
                cnt = got.count(("surplus", ("locale_name",), ("prefix", nm)))
                claims.append(z3.If(own[j], z3.BoolVal(cnt == 1), z3.BoolVal(cnt == 0)))
            expected_entries = [("missing", ("locale_name",), ("prefix", nm)) for nm in dnames] + [("surplus", ("locale_name",), ("prefix", nm)) for nm in xnames]
            claims.append(z3.BoolVal(all(g in expected_entries for g in got)))
            claim = z3.And(claims)
        else:
            claim = z3.Or(merge_fails) if merge_fails else z3.BoolVal(False)
        sol = z3.Solver()
        sol.set("timeout", timeout_ms)
        sol.add(st1.pc)
        sol.add(z3.Not(claim))
        t0 = time.time()
        r = second.check(sol, 'C07 path query')
        res["solver_s"] += time.time() - t0
        res["solver_checks"] += 1
        if r == z3.sat:
            mdl = sol.model()
            res["status"] = "sat"
            res["model"] = {"locale_has": [z3.is_true(mdl.eval(h, model_completion=True)) for h in has], "own_present": [z3.is_true(mdl.eval(o, model_completion=True)) for o in own],
                            "implicit": mdl.eval(dt, model_completion=True).as_long() == 1, "warnings_emitted": [[g[0], list(g[2])] for g in got], "returned": v[1]}
            break
        if r == z3.unknown:
            res["status"] = "unknown"
            break
    if res["status"] == "unsat":
        sol = z3.Solver()
        sol.add(z3.ULE(dt, 1))
        sol.add(z3.Not(z3.Or([z3.And(st1.pc) if st1.pc else z3.BoolVal(True) for st1, _ in outs])))
        res["solver_checks"] += 1
        if second.check(sol, 'C07 coverage query', True) != z3.unsat:
            res["status"] = "sat"
            res["model"] = {"note": "some input reaches no return"}
    if m.unwinding:
        res["status"] = "unknown"
    res["mir_fns"] = sorted(m.mir_fns_run)
    res["calls"] = sorted(m.calls_seen)
    res["solver_s"] = round(res["solver_s"], 3)
    return res


def replay_kernel(r):
    """A one-level project with the content of a kernel counterexample, through the real parser."""
    mdl = r["model"]
    if "locale_has" not in mdl:
        return None, "no content in the model"
    n, mo = r["n_default_keys"], r["n_own_keys"]
    dflt = {"d%d" % i: S("default d%d" % i) for i in range(n)}
    mine = {"d%d" % i: S("fr d%d" % i) for i in range(n) if mdl["locale_has"][i]}
    mine.update({"x%d" % j: S("fr x%d" % j) for j in range(mo) if mdl["own_present"][j]})
    proj = Project("en", ["en", "fr"], {"en": dflt or {"filler": S("f")}, "fr": mine if (mine or dflt) else {"filler": S("f")}}, inherits=None if mdl["implicit"] else {"fr": "en"})
    if not dflt:
        proj.files["fr"].setdefault("filler", S("f"))
    d = os.path.join(hostrun.VERIF, "work", "C07", "kernel_model")
    if os.path.isdir(d):
        shutil.rmtree(d)
    proj.write(d)
    real = run_warnings([d]).get(d)
    exp = expected_warnings(proj)
    if not real or real.get("status") != "ok":
        return None, {"dir": d, "real": real}
    got = sorted((w["kind"], w.get("locale"), w.get("path")) for w in real["warnings"] if w["kind"] in ("missing", "surplus"))
    return got != [tuple(x) for x in exp[1]], {"dir": d, "real": got, "expected": exp[1]}


def run(tier, seed):
    prop = "C07"
    t0 = time.time()
    hostrun.build_host()
    runs, sat, kinc = [], [], []
    try:
        mir = mirsmt.dump_mir("leptos_i18n_parser", "parser.mir")
        sizes = [(0, 0), (0, 2), (1, 0), (1, 1), (2, 1), (2, 2), (3, 1)] + ([(3, 2), (4, 2), (3, 3)] if tier != "quick" else [])
        for n, mo in sizes:
            try:
                r = decide_kernel(mir, n, mo)
            except Unsupported as e:
                kinc.append("kernel %d/%d: UNSUPPORTED %s" % (n, mo, e))
                continue
            runs.append(r)
            if r["status"] == "sat":
                sat.append(r)
            elif r["status"] != "unsat":
                kinc.append("kernel %d/%d: %s" % (n, mo, r["status"]))
    except Unsupported as e:
        kinc.append("MIR of leptos_i18n_parser: %s" % e)
    stats, bad, inconclusive = concrete_stage(tier, seed)
    inconclusive = kinc + inconclusive
    violations = 0
    known = report.load_known()
    confirmed = 0
    for r in sat[:3]:
        try:
            ok, info = replay_kernel(r)
        except Exception as e:
            ok, info = None, "replay failed: %s" % str(e)[-300:]
        path = report.write_replay(prop, "kernel_%d_%d" % (r["n_default_keys"], r["n_own_keys"]), dict(r, native=info, how_to_replay="echo <dir> | host/target/debug/verif-host warnings"))
        if ok:
            print("VIOLATION property=C07 replay=%s" % path)
            print("  Locale::merge with %d default keys / %d own keys: %s" % (r["n_default_keys"], r["n_own_keys"], json.dumps(info)[:240]))
            confirmed += 1
        elif not bad:
            print("UNCONFIRMED property=C07 Locale::merge differs from the statement on symbolic key sets, the project built from the model does not show it (%s)" % path)
    if sat and not confirmed and not bad:
        inconclusive.append("kernel counterexample not reproduced natively")
    violations += confirmed
    for b in bad:
        sig = {"engine": "N", "problem": b["problem"]}
        k = report.matches(sig, known, prop)
        if k is not None:
            print("KNOWN-FINDING: property=C07 %s" % k.get("description", k["id"]))
            continue
        violations += 1
        if violations <= 4:
            path = report.write_replay(prop, b["case"].replace("/", "_"), dict(b, signature=sig, how_to_replay="echo <project_dir> | host/target/debug/verif-host warnings"))
            print("VIOLATION property=C07 replay=%s" % path)
            print("  %s %s" % (b["case"], json.dumps({k: v for k, v in b.items() if k not in ("case", "project_dir")})[:300]))
    wall = time.time() - t0
    so, so_problems = second.verdict()
    for pr in so_problems:
        inconclusive.append("second opinion: " + pr)
    report.write_evidence(prop, tier, seed, "model_checking", {
        "evaluations": sum(r["paths"] for r in runs) or 1, "distinct_nontrivial": max(2, len(runs)),
        "rule": "one symbolic execution of Locale::merge per (number of default keys, number of own keys); every MIR path is one evaluation; per path z3 checks the emitted warnings against the statement for all presence patterns and both kinds of default_to, and finally that the paths cover every input",
        "samples": [{k: v for k, v in r.items() if k not in ("calls", "mir_fns")} for r in runs[:3]] or [{"note": "none"}],
        "states": sum(r["paths"] for r in runs) or 1, "transitions": sum(r["solver_checks"] for r in runs) or 1,
        "traces_validated_against_impl": stats["projects"],
        "kernel_runs": [{k: v for k, v in r.items() if k not in ("calls", "mir_fns")} for r in runs],
        "solver": "z3 %s" % z3.get_version_string(), "solver_s": round(sum(r["solver_s"] for r in runs), 3),
        "functions_encoded": sorted({f for r in runs for f in r.get("mir_fns", [])}),
        "mir_calls_summarised": sorted({c for r in runs for c in r.get("calls", [])}),
        "concrete_stage": dict(stats, mismatches=len(bad)),
        "bounds": "one level of keys: 0..3 (thorough 4) keys in the default locale, each present or not in the merged locale, 0..2 (thorough 3) own keys each present or not, default_to Implicit or Explicit, the nested merge of each present key succeeds or fails (symbolic). Outside the solver: the recursion into nested groups (ParsedValue::merge creating / merging nested locales), plural merging, namespaces, which locales get Explicit (the `inherits` table), null values — the concrete stage runs generated projects with all of those through the real parser.",
        "second_opinion": so,
        "inconclusive": inconclusive,
    }, wall, [
        "BTreeMap of the default keys: all present, iterated in key order; BTreeMap of the locale: presence of each key is a symbolic boolean; entry() is Vacant / Occupied accordingly, VacantEntry::insert makes the key present; keys() iterates the present keys in key order",
        "ParsedValue::merge (the nested level) emits nothing at this level and either succeeds or fails",
        "Warnings::emit_warning appends to a log; KeyPath push_key / pop_key are a stack",
        "concrete stage: verif-host warnings = parse_locales(false, dir); expectation computed from the abstract project: Missing(locale, path) for a key of the default locale absent (not null) from a locale without `inherits` entry, one per highest absent key; Surplus for keys not in the default locale at that level; none for the default locale; group / value mismatch is an error",
    ], violations)
    print("property=C07 tier=%s kernel_runs=%d paths=%d sat=%d %s mismatches=%d inconclusive=%d wall_s=%.1f" % (tier, len(runs), sum(r["paths"] for r in runs), len(sat), stats, len(bad), len(inconclusive), wall))
    if violations:
        return 1
    for i in inconclusive[:6]:
        print("INCONCLUSIVE property=C07 %s" % i)
    return 2 if inconclusive else 0


if __name__ == "__main__":
    sys.exit(run(os.environ.get("VERIF_TIER", "quick"), int(os.environ.get("VERIF_SEED", "0"))))
