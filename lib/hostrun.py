"""Build and drive verif-host (the real parser + code generator of /repo, compiled from its working tree)."""
import json
import os
import subprocess
import sys
import threading

VERIF = os.path.dirname(os.path.dirname(os.path.abspath(__file__)))
HOST_DIR = os.path.join(VERIF, "host")
HOST_BIN = os.path.join(HOST_DIR, "target", "debug", "verif-host")
ENV = dict(os.environ, CARGO_NET_OFFLINE="true")


class BuildFailed(Exception):
    pass


def build_host():
    """Incremental cargo build; /repo sources are #[path]-included / path deps, so edits are picked up."""
    lock_src = "/repo/Cargo.lock"
    lock_dst = os.path.join(HOST_DIR, "Cargo.lock")
    try:
        if os.path.exists(lock_src) and not os.path.exists(lock_dst):
            import shutil
            shutil.copy(lock_src, lock_dst)
    except OSError:
        pass
    p = subprocess.run(["cargo", "build", "--quiet"], cwd=HOST_DIR, env=ENV, capture_output=True, text=True)
    if p.returncode != 0:
        raise BuildFailed(p.stderr[-4000:])
    return HOST_BIN


def batch(dirs, jobs=None):
    """Run `verif-host batch` over the project directories with `jobs` parallel processes."""
    dirs = list(dirs)
    if not dirs:
        return {}
    jobs = jobs or min(16, max(1, len(dirs) // 4), os.cpu_count() or 4)
    chunks = [dirs[i::jobs] for i in range(jobs)]
    results = {}
    errors = []

    def work(chunk):
        if not chunk:
            return
        p = subprocess.run([HOST_BIN, "batch"], input="\n".join(chunk) + "\n", capture_output=True, text=True, env=ENV)
        lines = [l for l in p.stdout.split("\n") if l.strip()]
        got = {}
        for l in lines:
            try:
                j = json.loads(l)
                got[j["dir"]] = j
            except Exception as e:  # pragma: no cover
                errors.append(str(e))
        for d in chunk:
            if d not in got:
                # the process died (abort / stack overflow) on the first directory without an answer
                got[d] = {"dir": d, "status": "crash", "error": "no answer from verif-host (rc=%s) %s" % (p.returncode, p.stderr[-300:])}
        results.update(got)

    threads = [threading.Thread(target=work, args=(c,)) for c in chunks]
    for t in threads:
        t.start()
    for t in threads:
        t.join()
    # a crash hides the answers of the rest of its chunk: re-run those one by one
    redo = [d for d, r in results.items() if r["status"] == "crash"]
    if redo and len(redo) < len(dirs):
        for d in redo:
            p = subprocess.run([HOST_BIN, "eval", d], capture_output=True, text=True, env=ENV)
            try:
                results[d] = json.loads(p.stdout)
            except Exception:
                results[d] = {"dir": d, "status": "crash", "error": "verif-host eval rc=%s %s" % (p.returncode, p.stderr[-300:])}
    return results


class Cldr:
    """What CLDR assigns (icu_plurals called directly, same data the library uses)."""

    def __init__(self):
        self.p = None
        self.cache = {}
        self.lock = threading.Lock()

    def _ask(self, locale, rule, n):
        key = (locale, rule, n)
        if key in self.cache:
            return self.cache[key]
        with self.lock:
            if self.p is None:
                self.p = subprocess.Popen([HOST_BIN, "cldr"], stdin=subprocess.PIPE, stdout=subprocess.PIPE, text=True, env=ENV)
            self.p.stdin.write(json.dumps({"locale": locale, "rule": rule, "n": n}) + "\n")
            self.p.stdin.flush()
            r = json.loads(self.p.stdout.readline())
        self.cache[key] = r
        return r

    def category(self, locale, rule, n):
        r = self._ask(locale, rule, n)
        if "err" in r:
            raise RuntimeError(r["err"])
        return r["category"]

    def categories(self, locale, rule):
        r = self._ask(locale, rule, 1)
        if "err" in r:
            raise RuntimeError(r["err"])
        return r["categories"]

    def close(self):
        if self.p is not None:
            try:
                self.p.stdin.close()
                self.p.wait(timeout=5)
            except Exception:
                self.p.kill()
