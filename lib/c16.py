"""C16 (kernel level): what a context's operations do to the locale cells, executed from rustc MIR (engine M).

leptos' `RwSignal<L>` is summarised as a *cell* (contract: `get`/`get_untracked` return the value last written by
`set` / through a write guard / at creation). On top of that contract the following is decided from the MIR of the
real methods, for symbolic cell contents and symbolic arguments:

 step       I18nContext::set_locale / set_locale_untracked on a context, or on a scoped view of it obtained before or
            after the call (I18nContext::scope, scope_ctx_util, chained), writes exactly that context's cell: afterwards
            get_locale / get_locale_untracked / get_keys(_untracked) on the context and on every scoped view return the
            value just set, and the cell of any other context is unchanged.  One step from an arbitrary state: by
            induction this covers every sequence of set / get / scope operations.
 isolation  init_i18n_subcontext_with_options (the C15 entry, symbolic options) with a parent context present creates a
            context whose cell is not the parent's, does not write the parent's cell, and none of the reactive closures
            it installs (its memo chain and the RenderEffect that copies the memo into the cell) reads the parent's
            cell: the only signals they read are the caller's `initial_locale` signal, the cookie signal and the
            language list.  So a later write to either cell cannot reach the other one.

Outside: the order in which leptos re-runs memos and effects (not needed for the two statements above), the reactive
accessors' subscription (a `t!` closure re-running after set_locale is leptos' notification contract), islands.
"""
import json
import os
import re
import sys
import time

import z3

import c15
import mir2
import mirsmt
import report
import second
from mirsmt import Unsupported

LOC = c15.LOC
CTX_IMPL = r"::%s\(_1: I18nContext<L, S>"


def machine(mir, sym, log):
    m = c15.build_machine(mir, sym)

    def ret(st, v):
        return [(st, v)]

    def cell_of(m_, st, sig):
        s = m_.deref_all(st, sig)
        if not (isinstance(s, tuple) and s[0] == "rw"):
            raise Unsupported("RwSignal operation on %r" % (s,))
        return s[1]

    def s_rw_get(m_, st, args, callee):
        key = cell_of(m_, st, args[0])
        log.append(("read", "tracked" if "GetUntracked" not in callee else "untracked", key, log_depth[0]))
        return ret(st, st.mem[key])

    def stale_key(key):
        return ("stale", key)

    def s_rw_set(m_, st, args, callee):
        s = m_.deref_all(st, args[0])
        if isinstance(s, tuple) and s[0] == "write":
            return ret(st, ("unit",))
        key = cell_of(m_, st, args[0])
        log.append(("write", "set", key, log_depth[0]))
        st.mem[key] = args[1]
        st.mem[stale_key(key)] = z3.BoolVal(False)       # Set::set notifies every subscriber: none is stale afterwards
        return ret(st, ("unit",))

    def s_write_untracked(m_, st, args, callee):
        key = cell_of(m_, st, args[0])
        log.append(("write", "guard", key, log_depth[0]))
        st.mem[stale_key(key)] = z3.BoolVal(True)        # a write without notification: subscribers may now be stale
        return ret(st, ("guard", key))

    def s_deferred_effect(m_, st, args, callee):
        # Effect::new / Effect::new_isomorphic: the closure first runs at the next flush of the executor, not now
        pend = list(st.mem.get(("pending_effects",), ()))
        pend.append(args[0])
        st.mem[("pending_effects",)] = tuple(pend)
        return ret(st, ("effect",))

    def s_guard_deref_mut(m_, st, args, callee):
        g = m_.deref_all(st, args[0])
        if not (isinstance(g, tuple) and g[0] == "guard"):
            raise Unsupported("deref_mut of %r" % (g,))
        return ret(st, ("ptr", g[1], ()))

    def s_from_locale(m_, st, args, callee):
        return ret(st, ("keys", args[0]))

    def s_unit(m_, st, args, callee):
        return ret(st, ("unit",))

    def s_method(name):
        def f(m_, st, args, callee):
            return m_.call_fn(m_.fn(CTX_IMPL % name), list(args), st)
        return f

    log_depth = [0]
    base_memo = [f for rx, f in m.summaries if rx.startswith(r"^<leptos::prelude::Memo<\w+> as")][0]
    base_effect = [f for rx, f in m.summaries if rx.startswith(r"^leptos::prelude::RenderEffect")][0]

    def reactive(fn):
        def f(m_, st, args, callee):
            log_depth[0] += 1
            try:
                return fn(m_, st, args, callee)
            finally:
                log_depth[0] -= 1
        return f

    extra = [
        (r"^<leptos::prelude::RwSignal<L> as leptos::prelude::(Get|GetUntracked)>::get(_untracked)?$", s_rw_get),
        (r"^<leptos::prelude::RwSignal<L> as leptos::prelude::Set>::set$", s_rw_set),
        (r"^<leptos::prelude::RwSignal<L> as leptos::prelude::Write>::write_untracked$", s_write_untracked),
        (r"^leptos::prelude::Effect::<\w+>::new(_isomorphic|_sync)?::<", s_deferred_effect),
        (r"^<leptos::prelude::WriteSignal<std::option::Option<L>> as leptos::prelude::Set>::set$", lambda m_, st, args, callee: ret(st, ("unit",))),
        (r"^<UntrackedWriteGuard<L> as DerefMut>::deref_mut$", s_guard_deref_mut),
        (r"^<UntrackedWriteGuard<L> as Deref>::deref$", s_guard_deref_mut),
        (r"^<<S as scopes::Scope<L>>::Keys as locale_traits::LocaleKeys>::from_locale$", s_from_locale),
        (r"LocaleKeys>::from_locale$", s_from_locale),
        (r"^ConstScope::<L, \w+>::(new|map::<\w+>)$", s_unit),
        (r"^I18nContext::<L, \w+>::scope::<\w+>$", s_method("scope")),
        (r"^I18nContext::<L(, \w+)?>::get_locale$", s_method("get_locale")),
        (r"^I18nContext::<L(, \w+)?>::get_locale_untracked$", s_method("get_locale_untracked")),
        # evaluations that happen inside the reactive graph (memo bodies, the render effect): reads are logged with depth > 0
        (r"^<leptos::prelude::Memo<\w+> as leptos::prelude::(Get|GetUntracked)>::get(_untracked)?$", reactive(base_memo)),
        (r"^leptos::prelude::RenderEffect::<", reactive(base_effect)),
    ]
    m.summaries = extra + [x for x in m.summaries if not x[0].startswith(r"^I18nContext::<L>::get_locale_untracked")]
    return m


def flush(m, st):
    """Run the effects scheduled so far (their first run), in creation order -> list of states."""
    pend = st.mem.get(("pending_effects",), ())
    states = [st]
    for clos in pend:
        nxt = []
        for st0 in states:
            for st1, _ in m.call_closure(st0, clos, [c15.opt(z3.BoolVal(False), None)]):
                nxt.append(st1)
        states = nxt
    for st0 in states:
        st0.mem[("pending_effects",)] = ()
    return states


def new_cell(m, st, name, value):
    m.frame_counter += 1
    key = (m.frame_counter, name)
    st.mem[key] = value
    return key


def ctx_of(key):
    return ("tuple", (("rw", key), ("unit",)))


def prove(st, claim, what, res):
    s = z3.Solver()
    s.set("timeout", 20000)
    s.add(st.pc)
    s.add(z3.Not(claim))
    t0 = time.time()
    r = second.check(s, 'C16 path query')
    res["solver_s"] += time.time() - t0
    res["solver_checks"] += 1
    if r == z3.sat:
        res["status"] = "sat"
        res["failed"] = what
        res["model"] = str(s.model())[:600]
        return False
    if r != z3.unsat:
        res["status"] = "unknown"
        return False
    return True


def view_chain(m, st, ctx, how):
    """how: list of 'scope' | 'util' -> list of (state, scoped ctx)"""
    outs = [(st, ctx)]
    for h in how:
        nxt = []
        for st1, c in outs:
            if h == "scope":
                nxt += m.call_fn(m.fn(CTX_IMPL % "scope"), [c, ("unit",)], st1)
            else:
                nxt += m.call_fn(m.fn(r"^fn scope_ctx_util\("), [c, ("fnitem", "map_fn")], st1)
        outs = nxt
    return outs


def decide_step(mir, setter, set_via, get_via, scoped_before):
    """One set on A (through the view `set_via`), then every getter through the view `get_via`; B is any other context."""
    sym = c15.fresh("")
    log = []
    m = machine(mir, sym, log)
    st = mir2.St()
    X, Y, V = z3.Const("old_locale_of_A", LOC), z3.Const("locale_of_B", LOC), z3.Const("value_set", LOC)
    a = new_cell(m, st, "cell_A", X)
    b = new_cell(m, st, "cell_B", Y)
    # subscribers of A may be stale already (an earlier set_locale_untracked): arbitrary pre-state
    st.mem[("stale", a)] = z3.Bool("subscribers_of_A_stale_before")
    A = ctx_of(a)
    res = {"kind": "step", "setter": setter, "set_via": set_via, "get_via": get_via, "views_made": "before" if scoped_before else "after",
           "status": "unsat", "paths": 0, "solver_checks": 0, "solver_s": 0.0}
    pre = []
    if scoped_before:
        for st1, sv in view_chain(m, st, A, set_via):
            for st2, gv in view_chain(m, st1, A, get_via):
                pre.append((st2, sv, gv))
    else:
        for st1, sv in view_chain(m, st, A, set_via):
            pre.append((st1, sv, None))
    for st1, sv, gv in pre:
        for st2, _ in m.call_fn(m.fn(CTX_IMPL % setter), [sv, V], st1):
            gets = [(st2, gv)] if gv is not None else view_chain(m, st2, A, get_via)
            for st3, g in gets:
                res["paths"] += 1
                # exactly A's cell was written
                if not prove(st3, st3.mem[a] == V, "cell of A holds the value set", res):
                    return res, m
                if not prove(st3, st3.mem[b] == Y, "cell of another context unchanged", res):
                    return res, m
                if setter == "set_locale":
                    # set_locale "notifies all subscribers": whatever happened before, no subscriber is left stale
                    if not prove(st3, z3.Not(st3.mem[("stale", a)]), "set_locale notifies the subscribers (a write through Set::set) on every path", res):
                        return res, m
                for getter in ("get_locale", "get_locale_untracked", "get_keys", "get_keys_untracked"):
                    for st4, v in m.call_fn(m.fn(CTX_IMPL % getter), [g], st3.copy()):
                        if getter.startswith("get_keys"):
                            if not (isinstance(v, tuple) and v[0] == "keys"):
                                raise Unsupported("%s returned %r" % (getter, v))
                            v = v[1]
                        if not z3.is_expr(v):
                            raise Unsupported("%s returned %r" % (getter, v))
                        if not prove(st4, v == V, "%s through view %s returns the value set through view %s" % (getter, get_via, set_via), res):
                            return res, m
    if res["paths"] == 0:
        raise Unsupported("no path")
    res["solver_s"] = round(res["solver_s"], 3)
    return res, m


def decide_isolation(mir):
    sym = c15.fresh("")
    log = []
    st = mir2.St()
    P0 = z3.Const("parent_locale_cell", LOC)
    sym["parent"] = P0
    m = machine(mir, sym, log)
    p = new_cell(m, st, "cell_parent", P0)
    sym["parent_ctx"] = ctx_of(p)
    fn = m.fn(r"^fn init_i18n_subcontext_with_options\(")
    init_key = new_cell(m, st, "initial_locale_signal", sym["init"])
    init = c15.opt(sym["has_init"], ("sig", sym["init"]))
    name = c15.opt(sym["has_name"], ("cookie_name",))
    outs = m.call_fn(fn, [init, name, c15.opt(z3.BoolVal(False), None), c15.opt(z3.BoolVal(False), None)], st)
    res = {"kind": "isolation", "status": "unsat", "paths": len(outs), "solver_checks": 0, "solver_s": 0.0}
    if not outs:
        raise Unsupported("no path")
    reactive_reads_of_parent = [e for e in log if e[0] == "read" and e[2] == p and e[3] > 0]
    writes_to_parent = [e for e in log if e[0] == "write" and e[2] == p]
    res["reads_of_parent_cell_inside_reactive_closures"] = len(reactive_reads_of_parent)
    res["writes_to_parent_cell"] = len(writes_to_parent)
    res["reads_of_parent_cell_at_creation"] = len([e for e in log if e[0] == "read" and e[2] == p and e[3] == 0])
    if reactive_reads_of_parent:
        res["status"] = "sat"
        res["failed"] = "a memo / effect of the sub-context reads the parent's locale cell (%s): a later set_locale on the parent can reach the sub-context" % (reactive_reads_of_parent[0][1],)
        return res, m
    if writes_to_parent:
        res["status"] = "sat"
        res["failed"] = "creating the sub-context writes the parent's locale cell"
        return res, m
    W, W2 = z3.Const("later_value_for_parent", LOC), z3.Const("later_value_for_child", LOC)
    for st1, v in outs:
        v = m.deref_all(st1, v)
        rw = v[1][0]
        if not (isinstance(rw, tuple) and rw[0] == "rw"):
            raise Unsupported("sub-context value %r" % (v,))
        c = rw[1]
        if c == p:
            res["status"] = "sat"
            res["failed"] = "the sub-context shares the parent's locale cell"
            return res, m
        if not prove(st1, st1.mem[p] == P0, "parent cell unchanged by the creation", res):
            return res, m
        child0 = st1.mem[c]
        # one later set on each side
        for st2, _ in m.call_fn(m.fn(CTX_IMPL % "set_locale"), [ctx_of(p), W], st1.copy()):
            if not prove(st2, st2.mem[c] == child0, "set_locale on the parent leaves the sub-context's cell alone", res):
                return res, m
        for st2, _ in m.call_fn(m.fn(CTX_IMPL % "set_locale"), [v, W2], st1.copy()):
            if not prove(st2, z3.And(st2.mem[p] == P0, st2.mem[c] == W2), "set_locale on the sub-context writes its own cell only", res):
                return res, m
    res["solver_s"] = round(res["solver_s"], 3)
    return res, m


def decide_create_set_flush(mir, entry, setter):
    """A context is created, its locale is set in the same turn, then the executor runs what creation scheduled:
    the value set must survive (effects installed by the creation must not write an older value back)."""
    sym = c15.fresh("")
    log = []
    m = machine(mir, sym, log)
    st = mir2.St()
    res = {"kind": "create_set_flush", "entry": entry, "setter": setter, "status": "unsat", "paths": 0, "solver_checks": 0, "solver_s": 0.0}
    if entry == "top":
        fn = m.fn(r"^fn init_i18n_context_with_options\(")
        options = ("tuple", (sym["enable_cookie"], ("cookie_name",), ("cookie_options",), ("locales_options",)))
        outs = m.call_fn(fn, [options], st)
    else:
        P0 = z3.Const("parent_locale_cell", LOC)
        sym["parent"] = P0
        p = new_cell(m, st, "cell_parent", P0)
        sym["parent_ctx"] = ctx_of(p)
        fn = m.fn(r"^fn init_i18n_subcontext_with_options\(")
        init = c15.opt(sym["has_init"], ("sig", sym["init"]))
        name = c15.opt(sym["has_name"], ("cookie_name",))
        outs = m.call_fn(fn, [init, name, c15.opt(z3.BoolVal(False), None), c15.opt(z3.BoolVal(False), None)], st)
    W = z3.Const("value_set_right_after_creation", LOC)
    for st1, v in outs:
        v = m.deref_all(st1, v)
        rw = v[1][0]
        if not (isinstance(rw, tuple) and rw[0] == "rw"):
            raise Unsupported("context value %r" % (v,))
        c = rw[1]
        for st2, _ in m.call_fn(m.fn(CTX_IMPL % setter), [v, W], st1):
            for st3 in flush(m, st2):
                res["paths"] += 1
                if not prove(st3, st3.mem[c] == W, "the value set right after creation survives the first run of the effects the creation scheduled", res):
                    return res, m
    if res["paths"] == 0:
        raise Unsupported("no path")
    res["solver_s"] = round(res["solver_s"], 3)
    return res, m


def run(tier, seed):
    prop = "C16"
    t0 = time.time()
    try:
        mir = mirsmt.dump_mir("leptos_i18n", "leptos_i18n.mir")
    except Unsupported as e:
        print("INCONCLUSIVE property=C16 %s" % e)
        return 2
    runs, inconclusive, sat = [], [], []
    calls, fns = set(), set()
    views = [[], ["scope"], ["util"], ["scope", "util"], ["util", "scope"]]
    if tier != "quick":
        views += [["scope", "scope"], ["util", "util"], ["scope", "scope", "util"]]
    jobs = []
    for setter in ("set_locale", "set_locale_untracked"):
        for sv in views:
            for gv in views:
                for before in (True, False):
                    jobs.append((setter, sv, gv, before))
    for setter, sv, gv, before in jobs:
        try:
            r, m = decide_step(mir, setter, sv, gv, before)
            calls |= m.calls_seen
            fns |= m.mir_fns_run
        except Unsupported as e:
            inconclusive.append("step %s via %s / %s: UNSUPPORTED %s" % (setter, sv, gv, e))
            continue
        runs.append(r)
        if r["status"] == "sat":
            sat.append(r)
        elif r["status"] != "unsat":
            inconclusive.append("step %s: %s" % (setter, r["status"]))
    for entry in ("top", "sub"):
        for setter in ("set_locale", "set_locale_untracked"):
            try:
                r, m = decide_create_set_flush(mir, entry, setter)
                calls |= m.calls_seen
                fns |= m.mir_fns_run
                runs.append(r)
                if r["status"] == "sat":
                    sat.append(r)
                elif r["status"] != "unsat":
                    inconclusive.append("create_set_flush %s: %s" % (entry, r["status"]))
            except Unsupported as e:
                inconclusive.append("create_set_flush %s %s: UNSUPPORTED %s" % (entry, setter, e))
    try:
        r, m = decide_isolation(mir)
        calls |= m.calls_seen
        fns |= m.mir_fns_run
        runs.append(r)
        if r["status"] == "sat":
            sat.append(r)
        elif r["status"] != "unsat":
            inconclusive.append("isolation: %s" % r["status"])
    except Unsupported as e:
        inconclusive.append("isolation: UNSUPPORTED %s" % e)
    known = report.load_known()
    violations = 0
    for r in sat[:3]:
        sig = {"engine": "M", "kind": r["kind"], "failed": r.get("failed")}
        k = report.matches(sig, known, prop)
        if k is not None:
            print("KNOWN-FINDING: property=C16 %s" % k.get("description", k["id"]))
            continue
        name = "%s_%d" % (r["kind"], violations + 1)
        try:
            ok, info = native_confirm(r)
        except Exception as e:
            ok, info = None, "native replay failed: %s" % str(e)[-400:]
        path = report.write_replay(prop, name, dict(r, signature=sig, native=info, how_to_replay="crate %s (cargo run)" % CRATE16))
        if ok:
            print("VIOLATION property=C16 replay=%s" % path)
            print("  %s: %s" % (r["kind"], r.get("failed")))
            violations += 1
        else:
            print("UNCONFIRMED property=C16 %s: %s (not reproduced natively: %s) %s" % (r["kind"], r.get("failed"), info, path))
            inconclusive.append("%s: counterexample not reproduced natively" % r["kind"])
    native = {"scenarios": 0, "mismatches": 0}
    if not violations and not sat:
        try:
            n, bad = native_histories(tier, seed)
            native = {"scenarios": n, "mismatches": len(bad)}
            for b in bad[:3]:
                path = report.write_replay(prop, "native_history_%d" % (violations + 1), dict(b, note="found by the concrete stage (real leptos contexts, ssr), not by the solver"))
                print("VIOLATION property=C16 replay=%s" % path)
                print("  history %s: observed %s expected %s" % (b["history"], b["observed"], b["expected"]))
                violations += 1
        except Unsupported as e:
            inconclusive.append("native stage: %s" % str(e)[-500:])
    wall = time.time() - t0
    so, so_problems = second.verdict()
    for pr in so_problems:
        inconclusive.append("second opinion: " + pr)
    report.write_evidence(prop, tier, seed, "model_checking", {
        "evaluations": sum(r["paths"] for r in runs) or 1, "distinct_nontrivial": max(2, len(runs)),
        "rule": "one symbolic execution per (setter, view used to set, view used to get, views made before/after the set) and one for sub-context creation; every MIR path is one evaluation; each claim on the resulting cells is a z3 query",
        "samples": runs[:3] or [{"note": "none"}],
        "states": sum(r["paths"] for r in runs) or 1, "transitions": sum(r.get("solver_checks", 0) for r in runs) or 1,
        "traces_validated_against_impl": native["scenarios"], "native_stage": native,
        "step_runs": len([r for r in runs if r["kind"] == "step"]), "isolation": [r for r in runs if r["kind"] == "isolation"],
        "solver": "z3 %s" % z3.get_version_string(), "solver_s": round(sum(r.get("solver_s", 0) for r in runs), 3),
        "functions_encoded": sorted(fns), "mir_calls_summarised": sorted(calls),
        "bounds": "one operation from an arbitrary state of two contexts' cells (induction over histories); views: none, scope, scope_ctx_util and chains of two (thorough: three); setters set_locale, set_locale_untracked; getters get_locale, get_locale_untracked, get_keys, get_keys_untracked; sub-context creation with all combinations of initial locale / cookie name / cookie symbolic and a parent present. Outside: leptos' notification order (that a subscribed `t!` closure re-runs after set_locale), islands, signals the caller wires into `initial_locale`.",
        "second_opinion": so,
        "inconclusive": inconclusive,
    }, wall, [
        "RwSignal<L> is a cell: get/get_untracked return the last value written by new/set/a write guard (leptos contract)",
        "the other leptos / leptos-use summaries of C15 (memo = its closure, first value closure(None); RenderEffect runs once; cookie and language-list signals)",
        "LocaleKeys::from_locale is an uninterpreted function of the locale (C02 decides it for the generated types)",
        "reads are logged with the reactive depth at which they happen: depth > 0 = inside a memo body or the render effect; a read of the parent's cell at creation time (depth 0) creates no subscription of the sub-context's own reactive nodes",
    ], violations)
    print("property=C16 tier=%s runs=%d paths=%d sat=%d inconclusive=%d native=%s wall_s=%.1f" % (tier, len(runs), sum(r["paths"] for r in runs), len(sat), len(inconclusive), native, wall))
    if violations:
        return 1
    for i in inconclusive[:10]:
        print("INCONCLUSIVE property=C16 %s" % i)
    if inconclusive or not runs:
        return 2
    return 0


# ------------------------------------------------------------------------------------------ native side
def history_program(histories):
    """histories: list of op lists. ops: ("set", who, loc) ("setu", who, loc) ("get", who) ("scope", who -> new name) ("sub", parent, initial|None)
    contexts are named a, b, ...; `a` is the top-level context."""
    lines = []
    for hi, ops in enumerate(histories):
        lines.append("    {")
        lines.append("        let owner = Owner::new();")
        lines.append("        owner.with(|| {")
        lines.append("            let a = top(false, None, Some(\"en\"));")
        lines.append("            let mut n = 0usize;")
        for op in ops:
            if op[0] in ("set", "setu"):
                lines.append("            %s.%s(loc(%s)); settle();" % (op[1], "set_locale" if op[0] == "set" else "set_locale_untracked", json.dumps(op[2])))
            elif op[0] == "get":
                lines.append("            println!(\"G\\t%d\\t{}\\t{}\", n, %s.get_locale_untracked().as_str()); n += 1;" % (hi, op[1]))
            elif op[0] == "mk_memo":
                # a subscriber: a memo over the tracked getter, evaluated once now
                lines.append("            let %s = { let c = %s; Memo::new(move |_| c.get_locale()) }; let _ = %s.get_untracked();" % (op[2], op[1], op[2]))
            elif op[0] == "read_memo":
                lines.append("            println!(\"G\\t%d\\t{}\\t{}\", n, %s.get_untracked().as_str()); n += 1;" % (hi, op[1]))
            elif op[0] == "mk_t":
                # a reactive accessor created now, read later: t!(ctx, key) is a closure
                lines.append("            let %s = leptos_i18n::t!(%s, %s);" % (op[2], op[1], op[3]))
            elif op[0] == "call_t":
                lines.append("            println!(\"G\\t%d\\t{}\\t{}\", n, render(%s.clone())); n += 1;" % (hi, op[1]))
            elif op[0] == "scope":
                # scope_i18n!(ctx, subkeys): a -> grp -> grp.inner
                lines.append("            let %s = leptos_i18n::scope_i18n!(%s, %s);" % (op[2], op[1], op[3]))
            elif op[0] == "sub":
                init = "None" if op[3] is None else "Some({ let l = loc(%s); Signal::derive(move || l) })" % json.dumps(op[3])
                lines.append("            let %s = { let o = Owner::new(); let c = o.with(|| { provide_context(%s); init_i18n_subcontext_with_options::<Locale>(%s, None, None, Some(langs(Some(\"en\")))) }); std::mem::forget(o); c };" % (op[2], op[1], init))
            elif op[0] == "provider":
                # <I18nSubContextProvider> rendered in the *current* owner, below the parent context provided there;
                # the name is the context its children see
                lines.append("            let %s = { provide_context(%s); let slot = std::sync::Arc::new(std::sync::Mutex::new(None)); let s2 = slot.clone(); "
                             "let ch: leptos::children::TypedChildren<()> = leptos::children::ToChildren::to_children(move || { *s2.lock().unwrap() = Some(leptos_i18n::context::use_i18n_context::<Locale>()); }); "
                             "let v = leptos_i18n::context::i18n_sub_context_provider_inner::<Locale, _>(ch, None, None, None, Some(langs(Some(\"en\")))); std::mem::forget(v); settle(); "
                             "let c: leptos_i18n::I18nContext<Locale> = slot.lock().unwrap().expect(\"children ran\"); c };" % (op[2], op[1]))
            elif op[0] == "ctx_here":
                # what a sibling of the provider (same owner) gets from use_i18n_context
                lines.append("            let %s = leptos_i18n::context::use_i18n_context::<Locale>();" % op[1])
        lines.append("        });")
        lines.append("        std::mem::forget(owner);")
        lines.append("    }")
    return "\n".join(lines)


def simulate(ops):
    cell = {"a": "A"}
    val = {"A": "en"}
    suffix, suffix_of_leaf = {}, {}
    memo_val = {}
    memo_dirty = set()
    out = []
    for op in ops:
        if op[0] in ("set", "setu"):
            val[cell[op[1]]] = op[2]
            if op[0] == "set":
                # set_locale notifies: every subscriber of that cell is marked dirty; a memo is lazy, it re-evaluates
                # when it is next read and then sees the value the cell holds at that moment
                for mn in memo_val:
                    if cell[mn] == cell[op[1]]:
                        memo_dirty.add(mn)
        elif op[0] == "get":
            out.append(val[cell[op[1]]])
        elif op[0] == "mk_memo":
            cell[op[2]] = cell[op[1]]
            memo_val[op[2]] = val[cell[op[1]]]
        elif op[0] == "read_memo":
            if op[1] in memo_dirty:
                memo_val[op[1]] = val[cell[op[1]]]
                memo_dirty.discard(op[1])
            out.append(memo_val[op[1]])
        elif op[0] == "mk_t":
            cell[op[2]] = cell[op[1]]
            suffix[op[2]] = {"k": "", "leaf": " leaf"}.get(op[3], " inner") if op[3] != "leaf" else suffix_of_leaf[op[1]]
        elif op[0] == "call_t":
            out.append(val[cell[op[1]]] + suffix[op[1]])
        elif op[0] == "scope":
            cell[op[2]] = cell[op[1]]
            suffix_of_leaf[op[2]] = " leaf" if op[3] == "grp" else " inner"
        elif op[0] == "sub":
            cell[op[2]] = "cell_" + op[2]
            val["cell_" + op[2]] = op[3] if op[3] is not None else val[cell[op[1]]]
        elif op[0] == "provider":
            cell[op[2]] = "cell_" + op[2]
            val["cell_" + op[2]] = val[cell[op[1]]]
            cell["__here__"] = cell[op[1]]      # the provider's own context is visible to its children only
        elif op[0] == "ctx_here":
            cell[op[1]] = cell["__here__"]
    return out


def random_histories(tier, seed):
    import random
    rng = random.Random(16000 + seed)
    hs = []
    for _ in range(40 if tier == "quick" else 200):
        names = ["a"]
        depth = {"a": 0}          # 0: root keys, 1: scoped to grp, 2: scoped to grp.inner
        tnames = []
        mnames = []
        ops = []
        for _k in range(rng.randrange(4, 12)):
            r = rng.random()
            who = rng.choice(names)
            if r < 0.06 and len(mnames) < 3:
                mn = "m%d" % (len(mnames) + 1)
                ops.append(("mk_memo", who, mn))
                mnames.append(mn)
            elif r < 0.12 and len(tnames) < 4:
                tn = "t%d" % (len(tnames) + 1)
                ops.append(("mk_t", who, tn, "k" if depth[who] == 0 else "leaf"))
                tnames.append(tn)
            elif r < 0.2 and tnames:
                ops.append(("call_t", rng.choice(tnames)))
            elif r < 0.45:
                ops.append((rng.choice(["set", "setu"]), who, rng.choice(c15.NAMES)))
            elif r < 0.6:
                ops.append(("get", who))
            elif r < 0.8 and len(names) < 6:
                if depth[who] >= 2:
                    continue
                nn = "v%d" % len(names)
                ops.append(("scope", who, nn, "grp" if depth[who] == 0 else "inner"))
                names.append(nn)
                depth[nn] = depth[who] + 1
            elif len(names) < 6:
                if depth[who] != 0:
                    continue          # use_context looks the parent up by its root type
                nn = "s%d" % len(names)
                ops.append(("sub", who, nn, rng.choice([None, "fr", "de"])))
                names.append(nn)
                depth[nn] = 0
        for n in names:
            ops.append(("get", n))
        for tn in tnames:
            ops.append(("call_t", tn))
        if mnames:
            # the last word is a notifying set of the value already stored without notification
            who = rng.choice(names)
            l = rng.choice(c15.NAMES)
            ops += [("setu", who, l), ("set", who, l)]
        for mn in mnames:
            ops.append(("read_memo", mn))
        hs.append(ops)
    return hs


CRATE16 = os.path.join(c15.CACHE, "replay16-crate")
TARGET16 = os.path.join(c15.CACHE, "replay16-target")


def run_histories(histories):
    import shutil
    import subprocess
    os.makedirs(os.path.join(CRATE16, "src"), exist_ok=True)
    # the server-side crate of C15 plus reactive_graph's `effects` feature (cargo unifies features): memos and the
    # render effect are then live natively, as they are in a browser, and a subscription to another context shows
    cargo = open(os.path.join(c15.TEMPLATE15, "Cargo.toml.in")).read()
    cargo = cargo.replace('name = "verif-replay15"', 'name = "verif-replay16"').replace("[profile.dev]", 'reactive_graph = { version = "0.1", features = ["effects"] }\n\n[profile.dev]')
    with open(os.path.join(CRATE16, "Cargo.toml"), "w") as f:
        f.write(cargo)
    if os.path.exists("/repo/Cargo.lock") and not os.path.exists(os.path.join(CRATE16, "Cargo.lock")):
        shutil.copy("/repo/Cargo.lock", os.path.join(CRATE16, "Cargo.lock"))
    if os.path.isdir(os.path.join(CRATE16, "locales")):
        shutil.rmtree(os.path.join(CRATE16, "locales"))
    shutil.copytree(os.path.join(c15.TEMPLATE15, "locales"), os.path.join(CRATE16, "locales"))
    main = open(os.path.join(c15.TEMPLATE15, "src", "main.rs.in")).read().replace("@BODY@", history_program(histories))
    with open(os.path.join(CRATE16, "src", "main.rs"), "w") as f:
        f.write(main)
    env = dict(os.environ, CARGO_NET_OFFLINE="true", CARGO_TARGET_DIR=TARGET16, RUSTFLAGS="--cap-lints warn")
    p = subprocess.run(["cargo", "run", "--quiet"], cwd=CRATE16, env=env, capture_output=True, text=True, timeout=1800)
    if p.returncode != 0:
        raise Unsupported("native C16 crate failed (rc=%d): %s" % (p.returncode, p.stderr[-1500:]))
    got = {}
    for l in p.stdout.split("\n"):
        f = l.split("\t")
        if f[0] == "G":
            got.setdefault(int(f[1]), []).append(f[3])
    return got


def native_histories(tier, seed):
    hs = random_histories(tier, seed)
    # the provider component: its sub-context is seen by its children, not by what the caller renders next to it
    for setter in ("set", "setu"):
        hs.append([("provider", "a", "p1"), ("ctx_here", "h1"), (setter, "h1", "fr"), ("get", "p1"), ("get", "a"), (setter, "p1", "de"), ("get", "a"), ("get", "h1"), ("get", "p1")])
        hs.append([(setter, "a", "de"), ("provider", "a", "p1"), ("get", "p1"), ("provider", "a", "p2"), ("ctx_here", "h1"), (setter, "p2", "fr"), ("get", "p1"), ("get", "h1"), (setter, "h1", "es"), ("get", "p2"), ("get", "p1"), ("get", "a")])
    got = run_histories(hs)
    bad = []
    for i, ops in enumerate(hs):
        exp = simulate(ops)
        if got.get(i) != exp:
            bad.append({"history": [list(o) for o in ops], "observed": got.get(i), "expected": exp})
    return len(hs), bad


def native_confirm(r):
    """A solver counterexample is about one step; natively: a batch of short histories exercising that kind of step."""
    hs = []
    for setter in ("set", "setu"):
        hs.append([("scope", "a", "v1", "grp"), (setter, "a", "fr"), ("get", "v1"), ("get", "a")])
        hs.append([("scope", "a", "v1", "grp"), ("scope", "v1", "v2", "inner"), (setter, "v2", "de"), ("get", "a"), ("get", "v1"), ("get", "v2")])
        hs.append([(setter, "a", "fr"), ("scope", "a", "v1", "grp"), ("get", "v1")])
        hs.append([("sub", "a", "s1", None), (setter, "a", "fr"), ("get", "s1"), ("get", "a")])
        hs.append([("sub", "a", "s1", None), (setter, "s1", "de"), ("get", "a"), ("get", "s1")])
        hs.append([("sub", "a", "s1", "es"), (setter, "a", "fr"), ("get", "s1"), ("get", "a")])
        hs.append([("mk_memo", "a", "m1"), ("setu", "a", "fr"), ("set", "a", "fr"), ("read_memo", "m1")])
        hs.append([("scope", "a", "v1", "grp"), ("mk_memo", "v1", "m1"), ("setu", "a", "de"), ("set", "v1", "de"), ("read_memo", "m1")])
    got = run_histories(hs)
    bad = [{"history": [list(o) for o in ops], "observed": got.get(i), "expected": simulate(ops)} for i, ops in enumerate(hs) if got.get(i) != simulate(ops)]
    return bool(bad), {"histories": len(hs), "mismatches": bad[:4]}


if __name__ == "__main__":
    sys.exit(run(os.environ.get("VERIF_TIER", "quick"), int(os.environ.get("VERIF_SEED", "0"))))
