"""C17: translations embedded in the page under dynamic_load + ssr.

K (deciding, solver): the real `push_js_string` (leptos_i18n/src/fetch_translations.rs, used by
`RegisterCtx::to_array` on the server and by `init_translations` on hydration) under Kani: for every string made of
one Unicode scalar value (thorough: also two ASCII characters) the literal it writes decodes, by the JSON /
JavaScript string-literal grammar, to the same characters, contains no `<` (so no `</script>` / `<!--`) and no raw
U+2028 / U+2029.

N (supporting, concrete): a real crate built with `dynamic_load, ssr` expands load_locales!() on generated projects;
simulated requests (fresh Owner + RegisterCtx) read subsets of keys, `to_array()` gives the script text; node
evaluates it; the decoded value must list exactly the units the reads used, each with the baked table of that unit
(tied to the source literals by C11), in order.
"""
import json
import os
import re
import shutil
import subprocess
import sys
import time

import c11
import engine_g
import hostrun
import kani_run
import kcheck
import replay
import report

CACHE = os.path.join(hostrun.VERIF, ".cache")
CRATE = os.path.join(CACHE, "replay17-crate")
TARGET = os.path.join(CACHE, "replay17-target")
TEMPLATE = os.path.join(hostrun.VERIF, "replay", "template17")

HARNESSES_1 = ["js_char_len1", "js_char_len2", "js_char_len3", "js_char_len4", "witness_js_reaches_assert"]
HARNESSES_2 = ["js_chars_1_1", "js_chars_1_2", "js_chars_2_1", "js_chars_1_3", "js_chars_3_1", "js_chars_1_4", "js_chars_4_1"]


def setup_crate(project_dir, body):
    os.makedirs(os.path.join(CRATE, "src"), exist_ok=True)
    cargo = open(os.path.join(TEMPLATE, "Cargo.toml.in")).read().replace("@METADATA@", replay.metadata_of(project_dir))
    with open(os.path.join(CRATE, "Cargo.toml"), "w") as f:
        f.write(cargo)
    if os.path.exists("/repo/Cargo.lock") and not os.path.exists(os.path.join(CRATE, "Cargo.lock")):
        shutil.copy("/repo/Cargo.lock", os.path.join(CRATE, "Cargo.lock"))
    ldir = os.path.join(CRATE, "locales")
    if os.path.isdir(ldir):
        shutil.rmtree(ldir)
    shutil.copytree(os.path.join(project_dir, "locales"), ldir)
    main = open(os.path.join(TEMPLATE, "src", "main.rs.in")).read().replace("@BODY@", body)
    with open(os.path.join(CRATE, "src", "main.rs"), "w") as f:
        f.write(main)


def run_crate(timeout=1500):
    env = dict(os.environ, CARGO_NET_OFFLINE="true", CARGO_TARGET_DIR=TARGET, RUSTFLAGS="--cap-lints warn")
    p = subprocess.run(["cargo", "run", "--quiet"], cwd=CRATE, env=env, capture_output=True, text=True, timeout=timeout)
    if p.returncode != 0:
        raise replay.ReplayError("dynamic_load+ssr crate failed (rc=%d): %s" % (p.returncode, p.stderr[-2500:]))
    texts, scripts = {}, {}
    for l in p.stdout.split("\n"):
        f = l.split("\t")
        if f[0] == "T":
            texts[(int(f[1]), int(f[2]))] = bytes.fromhex(f[3]).decode("utf-8")
        elif f[0] == "S":
            scripts[int(f[1])] = bytes.fromhex(f[2]).decode("utf-8")
    return texts, scripts


NODE_PROG = r"""
const fs = require('fs');
const scripts = JSON.parse(fs.readFileSync(process.argv[2], 'utf8'));
const out = {};
for (const id of Object.keys(scripts)) {
  try {
    const window = {};
    // what a browser does with the inline classic script
    (new Function('window', scripts[id]))(window);
    out[id] = {ok: true, value: window.__LEPTOS_I18N_TRANSLATIONS};
  } catch (e) {
    out[id] = {ok: false, error: String(e)};
  }
}
process.stdout.write(JSON.stringify(out));
"""


def node_eval(scripts):
    d = os.path.join(CACHE, "c17-node")
    os.makedirs(d, exist_ok=True)
    with open(os.path.join(d, "scripts.json"), "w") as f:
        json.dump({str(k): v for k, v in scripts.items()}, f)
    with open(os.path.join(d, "eval.js"), "w") as f:
        f.write(NODE_PROG)
    p = subprocess.run(["node", os.path.join(d, "eval.js"), os.path.join(d, "scripts.json")], capture_output=True, text=True, timeout=300)
    if p.returncode != 0:
        raise replay.ReplayError("node failed: %s" % p.stderr[-500:])
    return {int(k): v for k, v in json.loads(p.stdout).items()}


def html_script_safe(script):
    """The text of a <script> element ends at the first `</script` (ASCII case-insensitive); `<!--` switches the
    tokenizer to the escaped states where a later `<script` would swallow the real end tag."""
    low = script.lower()
    return "</script" not in low and "<!--" not in low


def baked_tables(h):
    baked = {}
    for key, t in h["tables"].items():
        loc = t["locale"].split("::")[-1].strip()
        name = t["name"]
        nsname = name[: -(len(loc) + 1)] if "namespaces" in key else None
        baked[(nsname, loc)] = t["strings"]
    return baked


def plan_requests(proj, h, rng_seed):
    """-> list of requests; a request is a list of reads (ns, path, locale_name, hk)."""
    import random
    rng = random.Random(rng_seed)
    leafs = []
    for ns, path in proj.leaf_keys():
        hk = engine_g.host_key(h, ns, path)
        if not hk or hk.get("kind") not in ("builder", "lit"):
            continue
        gen = hk["string"] if hk["kind"] == "builder" else hk["lit"]
        if "err" in gen or "fmt_" in json.dumps(gen):
            continue
        leafs.append((ns, path, hk))
    if not leafs:
        return []
    locs = list(proj.locale_order())
    reqs = [[]]                                                             # a request that reads nothing
    reqs.append([(leafs[0][0], leafs[0][1], locs[0], leafs[0][2])])          # one key, default locale
    reqs.append([(ns, p, locs[(i + 1) % len(locs)], hk) for i, (ns, p, hk) in enumerate(leafs[:6])])
    for l in locs[1:3]:
        reqs.append([(ns, p, l, hk) for ns, p, hk in leafs[:40]])            # everything in one non-default locale
    if proj.namespaces:
        ns0 = proj.namespaces[-1]
        reqs.append([(ns, p, locs[0], hk) for ns, p, hk in leafs if ns == ns0][:20])
    pick = rng.sample(leafs, min(5, len(leafs)))
    reqs.append([(ns, p, rng.choice(locs), hk) for ns, p, hk in pick])
    return reqs


def read_expr(proj, h, ns, path, loc, hk):
    fields = hk.get("fields", [])
    bounds = hk.get("bounds", {})
    nums = {}
    for f in fields:
        b = " ".join(bounds.get("__%s__" % f, []))
        if "InterpolatePluralCount" in b:
            nums[f] = {"ty": "plural", "v": 2}
        elif "InterpolateRangeCount<" in b:
            nums[f] = {"ty": b.split("InterpolateRangeCount<")[1].split(">")[0], "v": 2}
    e = replay.call_expr("td_string", proj.ident(loc), hk["path"], fields, {}, nums)
    return "on(%s).to_string()" % e


def native_part(tier, seed, limit):
    cases = [c for c in c11.cases_for(tier, seed) if c.expect == "ok"]
    # strings aimed at the script context
    from suites import S, V, SUB, Case, Project
    hostile = ['"]}];alert(1);//', 'back\\"slash quote', "</SCRIPT >", "<![CDATA[ ]]>", "para\u2029sep line\u2028sep", "--> <!-- <script>", "\\u0041 \\n literal escapes",
               "\u0000\u0001\u0008\u000b\u000c\u001f\u007f\u0080\u009f", "'+alert(1)+'", "`${alert(1)}`", "\\", "\"", "<", "&lt;/script&gt;", "\ud7ff\ue000\ufffd\U0010ffff"]
    def tree(l):
        d = {"h%d" % i: S(x + " " + l) for i, x in enumerate(hostile)}
        d["iv"] = S(hostile[0], V("x"), hostile[1] + l)
        d["grp"] = SUB({"a": S(hostile[2] + l), "b": S(hostile[4])})
        return d
    cases.insert(0, Case(Project("en", ["en", "fr", "de"], {l: tree(l) for l in ("en", "fr", "de")}), "c17_script/plain", roles={"*": "script_context_strings"}))
    nsf = {ns: {l: {"k%d" % i: S(x + ns + l) for i, x in enumerate(hostile[:8])} for l in ("en", "fr")} for ns in ("zz", "user-menu", "aa")}
    cases.insert(1, Case(Project("en", ["en", "fr"], nsf, namespaces=["zz", "user-menu", "aa"]), "c17_nsnames/dash", roles={"*": "script_context_strings"}))
    # a translation unit without any literal string (only interpolations) registered next to ordinary units: `values: []`
    evf = {"vars": {l: {"only_var": S(V("name")), "two_vars": S(V("a"), V("b"))} for l in ("en", "fr")},
           "home": {l: {"title": S("home " + l), "hello": S("hello ", V("name"), " " + l)} for l in ("en", "fr")},
           "other": {l: {"x": S("x " + l), "y": S("y " + l)} for l in ("en", "fr")}}
    cases.insert(2, Case(Project("en", ["en", "fr"], evf, namespaces=["vars", "home", "other"]), "c17_emptyunit/ns", roles={"*": "script_context_strings"}))
    # spread over the families
    fams = {}
    for c in cases:
        fams.setdefault(c.tag.split("/")[0], []).append(c)
    order = []
    i = 0
    while len(order) < limit and any(fams.values()):
        prio = ["c17_script", "c17_nsnames", "c17_emptyunit", "c11_unicode", "c11:c03_inherit", "c11:c01_namespaces", "c11:c01_subkeys", "c11:c01_interp", "c11:c06_args", "c11:c01_literals"]
        for f in sorted(fams, key=lambda x: (prio.index(x) if x in prio else len(prio), x)):
            if fams[f]:
                order.append(fams[f].pop((seed + i) % len(fams[f]) if fams[f] else 0))
                if len(order) >= limit:
                    break
        i += 1
    work = os.path.join(hostrun.VERIF, "work", "C17")
    os.makedirs(work, exist_ok=True)
    for c in order:
        c.dir = os.path.join(work, c.tag.replace("/", "_").replace(":", "_"))
        if os.path.isdir(c.dir):
            shutil.rmtree(c.dir)
        c.project.write(c.dir)
    results = hostrun.batch([c.dir for c in order])
    stats = {"projects": 0, "requests": 0, "reads": 0, "units_listed": 0, "strings_compared": 0, "scripts_evaluated_by_node": 0}
    findings, inconclusive = [], []
    for c in order:
        h = results.get(c.dir)
        if not h or h.get("status") != "ok":
            inconclusive.append("%s: host %s" % (c.tag, (h or {}).get("status")))
            continue
        proj = c.project
        reqs = plan_requests(proj, h, seed)
        if not reqs:
            continue
        baked = baked_tables(h)
        body = []
        for ri, reads in enumerate(reqs):
            exprs = ",\n            ".join(read_expr(proj, h, ns, p, l, hk) for ns, p, l, hk in reads)
            body.append("    request(%d, || vec![\n            %s\n    ]);" % (ri, exprs))
        setup_crate(c.dir, "\n".join(body))
        try:
            texts, scripts = run_crate()
        except replay.ReplayError as e:
            inconclusive.append("%s: %s" % (c.tag, str(e)[-800:]))
            continue
        except subprocess.TimeoutExpired:
            inconclusive.append("%s: native crate timed out" % c.tag)
            continue
        stats["projects"] += 1
        decoded = node_eval(scripts)
        for ri, reads in enumerate(reqs):
            stats["requests"] += 1
            stats["reads"] += len(reads)
            script = scripts.get(ri)
            d = decoded.get(ri)
            base = {"case": c.tag, "project_dir": c.dir, "request": [{"ns": ns, "key": list(p), "locale": l} for ns, p, l, _ in reads], "script": script}
            if script is None or d is None:
                inconclusive.append("%s request %d: no script printed" % (c.tag, ri))
                continue
            stats["scripts_evaluated_by_node"] += 1
            if not d["ok"]:
                findings.append(("script_not_javascript", dict(base, error=d["error"])))
                continue
            if not html_script_safe(script):
                findings.append(("script_ends_early_in_html", dict(base, note="the text contains `</script` or `<!--`")))
                continue
            may, must = set(), set()
            for ns, p, l, hk in reads:
                try:
                    eff = proj.effective_locale(ns, l, p)
                except Exception:
                    eff = None
                nsid = ns.replace("-", "_") if ns else None
                if eff is None:
                    may |= {(nsid, proj.ident(x)) for x in proj.locale_order()}
                    continue
                may.add((nsid, proj.ident(eff)))
                try:
                    av = proj.raw_lookup(ns, eff, p)
                    if av and av[0] == "str" and any(x[0] == "text" and x[1] for x in av[1]):
                        must.add((nsid, proj.ident(eff)))
                except Exception:
                    pass
            listed = {}
            shape_ok = isinstance(d["value"], list)
            if shape_ok:
                for u in d["value"]:
                    if not (isinstance(u, dict) and set(u) == {"locale", "id", "values"} and isinstance(u["values"], list)):
                        shape_ok = False
                        break
                    # ids and locales must be the configured names exactly (the client deserialises them by name)
                    if u["id"] is not None and u["id"] not in (proj.namespaces or []):
                        findings.append(("unknown_unit_id", dict(base, unit=[u["id"], u["locale"]], namespaces=proj.namespaces)))
                        continue
                    if u["locale"] not in proj.locale_order():
                        findings.append(("unknown_unit_locale", dict(base, unit=[u["id"], u["locale"]], locales=list(proj.locale_order()))))
                        continue
                    key = (u["id"].replace("-", "_") if u["id"] else None, proj.ident(u["locale"]))
                    if key in listed:
                        findings.append(("unit_listed_twice", dict(base, unit=list(key))))
                    listed[key] = u["values"]
            if not shape_ok:
                findings.append(("script_value_shape", dict(base, value=d["value"])))
                continue
            stats["units_listed"] += len(listed)
            extra = set(listed) - may
            missing = must - set(listed)
            if extra:
                findings.append(("unused_unit_embedded", dict(base, units=sorted(map(list, extra), key=str), used=sorted(map(list, may), key=str))))
            if missing:
                findings.append(("used_unit_missing", dict(base, units=sorted(map(list, missing), key=str), listed=sorted(map(list, listed), key=str))))
            for key, vals in listed.items():
                if key not in baked:
                    findings.append(("unknown_unit", dict(base, unit=list(key))))
                    continue
                stats["strings_compared"] += len(baked[key])
                if vals != baked[key]:
                    bad = next((i for i in range(max(len(vals), len(baked[key]))) if i >= len(vals) or i >= len(baked[key]) or vals[i] != baked[key][i]), None)
                    findings.append(("unit_strings_differ", dict(base, unit=list(key), first_difference_at=bad,
                                                                 embedded=vals[bad] if bad is not None and bad < len(vals) else None,
                                                                 source=baked[key][bad] if bad is not None and bad < len(baked[key]) else None)))
    return stats, findings, inconclusive, [c.tag for c in order]


# ---------------------------------------------------------------------- G: which unit a read registers
HOST_DL_TARGET = os.path.join(hostrun.HOST_DIR, "target-dl")
HOST_DL_BIN = os.path.join(HOST_DL_TARGET, "debug", "verif-host")


def build_host_dl():
    """verif-host with the macro's dynamic_load + ssr code paths (cfg!(feature = ..) in the #[path]-included sources)."""
    p = subprocess.run(["cargo", "build", "--quiet", "--features", "dynamic_load,ssr", "--target-dir", HOST_DL_TARGET],
                       cwd=hostrun.HOST_DIR, env=hostrun.ENV, capture_output=True, text=True)
    if p.returncode != 0:
        raise hostrun.BuildFailed(p.stderr[-3000:])


def registration_part(tier, seed, limit):
    """For every key of every project: the units registered by reading the key (term over the symbolic locale, from the
    generated dynamic_load+ssr code) must be, for every locale, the unit of the key's effective locale and namespace
    (nothing at all is also accepted where the value is a number / boolean literal). z3 decides over the locale."""
    import smt
    import z3
    build_host_dl()
    cases = [c for c in c11.cases_for(tier, seed) if c.expect == "ok"][:limit]
    work = os.path.join(hostrun.VERIF, "work", "C17g")
    os.makedirs(work, exist_ok=True)
    for c in cases:
        c.dir = os.path.join(work, c.tag.replace("/", "_").replace(":", "_"))
        if os.path.isdir(c.dir):
            shutil.rmtree(c.dir)
        c.project.write(c.dir)
    res = {}
    p = subprocess.run([HOST_DL_BIN, "batch"], input="\n".join(c.dir for c in cases) + "\n", capture_output=True, text=True, env=hostrun.ENV)
    for l in p.stdout.split("\n"):
        try:
            j = json.loads(l)
            res[j["dir"]] = j
        except Exception:
            pass
    stats = {"projects": 0, "keys": 0, "queries": 0, "unsat": 0, "sat": 0, "twins": 0, "solver_s": 0.0}
    findings, inconclusive = [], []
    for c in cases:
        h = res.get(c.dir)
        if not h or h.get("status") != "ok":
            inconclusive.append("%s: host(dynamic_load) %s %s" % (c.tag, (h or {}).get("status"), str((h or {}).get("error"))[:200]))
            continue
        proj = c.project
        stats["projects"] += 1
        names = {}
        for key, t in h["tables"].items():
            loc = t["locale"].split("::")[-1].strip()
            nsname = t["name"][: -(len(loc) + 1)] if "namespaces" in key else None
            names[(nsname, loc)] = t["name"]
        locs = list(proj.locale_order())
        for ns, path in proj.leaf_keys():
            hk = engine_g.host_key(h, ns, path)
            if not hk or hk.get("kind") not in ("builder", "lit"):
                if hk and hk.get("err"):
                    inconclusive.append("%s %s: %s" % (c.tag, ".".join(path), str(hk.get("err"))[:200]))
                continue
            reg = hk.get("registered")
            if reg is None or "err" in reg:
                inconclusive.append("%s %s: no registration term" % (c.tag, ".".join(path)))
                continue
            stats["keys"] += 1
            ctx = smt.Ctx([proj.ident(l) for l in locs])
            try:
                tg = ctx.term(reg)
            except smt.Inconclusive as e:
                inconclusive.append("%s %s: %s" % (c.tag, ".".join(path), e))
                continue
            bad = []
            allowed_of = {}
            for l in locs:
                try:
                    eff = proj.effective_locale(ns, l, path)
                    av = proj.raw_lookup(ns, eff, path)
                except Exception:
                    eff, av = None, None
                if eff is None:
                    continue
                nsid = ns.replace("-", "_") if ns else None
                marker = "\u27ea%s\u27eb" % names.get((nsid, proj.ident(eff)), "?")
                allowed = [marker] + ([""] if (av and av[0] in ("num", "bool")) else [])
                allowed_of[l] = allowed
                bad.append(z3.And(ctx.L == ctx.loc_const[proj.ident(l)], z3.Not(z3.Or([tg == z3.StringVal(a) for a in allowed]))))
            sol = z3.Solver()
            sol.set("timeout", 20000)
            for sc in ctx.side:
                sol.add(sc)
            sol.add(z3.Or(bad) if bad else z3.BoolVal(False))
            t1 = time.time()
            r = sol.check()
            stats["solver_s"] += time.time() - t1
            stats["queries"] += 1
            if r == z3.unsat:
                stats["unsat"] += 1
                # vacuity twin: some locale does get its expected marker
                tw = z3.Solver()
                for sc in ctx.side:
                    tw.add(sc)
                l0 = next(iter(allowed_of), None)
                if l0 is not None:
                    tw.add(ctx.L == ctx.loc_const[proj.ident(l0)], tg == z3.StringVal(allowed_of[l0][0]))
                    if tw.check() == z3.sat:
                        stats["twins"] += 1
            elif r == z3.sat:
                stats["sat"] += 1
                mdl = sol.model()
                lv = str(mdl.eval(ctx.L, model_completion=True))[2:]
                got = smt.z3_str(mdl.eval(tg, model_completion=True))
                lname = next((l for l in locs if proj.ident(l) == lv), lv)
                findings.append(("wrong_unit_registered", {"case": c.tag, "project_dir": c.dir, "ns": ns, "key": list(path), "locale": lname,
                                                            "registered_by_generated_code": got, "allowed": allowed_of.get(lname)}))
            else:
                inconclusive.append("%s %s: solver unknown" % (c.tag, ".".join(path)))
    stats["solver_s"] = round(stats["solver_s"], 2)
    return stats, findings, inconclusive


def confirm_registration(payload):
    """Native replay of a wrong_unit_registered finding: one request reading that key in that locale."""
    import model as _m
    d = payload["project_dir"]
    h = json.loads(subprocess.run([hostrun.HOST_BIN, "eval", d], capture_output=True, text=True, env=hostrun.ENV).stdout)
    hk = engine_g.host_key(h, payload["ns"], tuple(payload["key"]))
    if not hk:
        return None, "key not found by the default host"
    class P:  # just enough of Project for read_expr
        @staticmethod
        def ident(l):
            return l.replace("-", "_")
    body = "    request(0, || vec![%s]);" % read_expr(P, h, payload["ns"], tuple(payload["key"]), payload["locale"], hk)
    setup_crate(d, body)
    texts, scripts = run_crate()
    dec = node_eval(scripts)[0]
    if not dec["ok"]:
        return True, "script is not JavaScript: %s" % dec["error"]
    listed = sorted("\u27ea%s_%s\u27eb" % ((u["id"].replace("-", "_") if u["id"] else "I18nKeys"), u["locale"].replace("-", "_")) for u in dec["value"])
    return (sorted(listed) != sorted(a for a in payload["allowed"][:1]) and not (listed == [] and "" in payload["allowed"])), {"units_in_script": listed}


def run(tier, seed):
    prop = "C17"
    t0 = time.time()
    hostrun.build_host()
    harnesses = list(HARNESSES_1) + list(HARNESSES_2)
    # one character: the loop over value.chars() runs once (bound 2 = 1 + exit test); two characters: bound 3
    krun = kani_run.KaniRun("jsstr", HARNESSES_1, jobs=len(HARNESSES_1), timeout_s=1500, unwindset={"write_js_string": 2})
    replay.lock()
    try:
        stats, findings, inconclusive, tags = native_part(tier, seed, 9 if tier == "quick" else 30)
    finally:
        replay.unlock()
    try:
        gstats, gfind, ginc = registration_part(tier, seed, 12 if tier == "quick" else 60)
    except hostrun.BuildFailed as e:
        gstats, gfind, ginc = {"projects": 0}, [], ["host (dynamic_load, ssr) does not build: %s" % str(e)[-500:]]
    inconclusive += ginc
    for kind, payload in gfind[:3]:
        try:
            replay.lock()
            ok, info = confirm_registration(payload)
        except Exception as e:
            ok, info = None, "native replay failed: %s" % str(e)[-300:]
        finally:
            replay.unlock()
        payload["native"] = info
        if ok:
            findings.append((kind, dict(payload, script=None, request=[{"ns": payload["ns"], "key": payload["key"], "locale": payload["locale"]}])))
        else:
            inconclusive.append("registration finding on %s %s did not reproduce natively: %s" % (payload["case"], ".".join(payload["key"]), info))
    known = report.load_known()
    violations = 0
    seen = set()
    for kind, payload in findings:
        sig = {"engine": "N", "kind": kind}
        k = report.matches(sig, known, prop)
        if k is not None:
            if k["id"] not in seen:
                print("KNOWN-FINDING: property=%s %s" % (prop, k.get("description", k["id"])))
                seen.add(k["id"])
            continue
        violations += 1
        if violations <= 3:
            name = "%s_%s_%d" % (payload["case"].replace("/", "_").replace(":", "_"), kind, violations)
            payload = dict(payload, kind=kind, signature=sig, note="found by the concrete end-to-end stage (real crate, dynamic_load + ssr, script evaluated by node)",
                           how_to_replay="crate at %s: cargo run (features dynamic_load, ssr); the script text is the line starting with S" % CRATE)
            path = report.write_replay(prop, name, payload)
            print("VIOLATION property=%s replay=%s" % (prop, path))
            print("  %s case=%s %s" % (kind, payload["case"], json.dumps({k: v for k, v in payload.items() if k in ("error", "units", "unit", "first_difference_at", "embedded", "source")}, ensure_ascii=False)[:300]))
    kw = dict(
        functions=["leptos_i18n::fetch_translations::write_js_string::<Sink> (through verif_hooks::write_js_string), compiled by Kani from /repo; Sink is the harness' array writer (production instantiates it with String)"],
        stubs=[], assumptions=["the decoder in the harness is the RFC 8259 string grammar (which ECMAScript string literals include), extended to reject a raw `<` and raw U+2028 / U+2029",
                               "per-loop bound for the loop over value.chars() through --unwindset (characters + 1), all other loops unwind 8; unwinding assertions on"])
    rc_k, cov = kcheck.finish(
        prop, krun, ["witness_js_reaches_assert"],
        bounds="strings of exactly one Unicode scalar value of 1, 2, 3, 4 UTF-8 bytes (every scalar value)", **kw)
    if krun.unwindset is None:
        # the function whose loop gets its own bound is gone from /repo's tree: the two-character harnesses would need
        # ~10 GB each with the global bound; no verdict from them
        print("INCONCLUSIVE property=C17 no loop of `write_js_string` in the goto binary: two-character harnesses not run")
        rc_k2, cov2 = 2, {"harnesses": {}, "harnesses_successful": 0, "solver_s": 0, "violations": [], "bounds": "two-character harnesses not run", "wall_s": 0}
    else:
        krun2 = kani_run.KaniRun("jsstr", HARNESSES_2, jobs=len(HARNESSES_2), timeout_s=2400 if tier == "quick" else 5400, unwindset={"write_js_string": 3})
        rc_k2, cov2 = kcheck.finish(
            prop, krun2, [],
            bounds="strings of exactly two scalar values where at least one is ASCII (byte lengths 1+1, 1+2, 2+1, 1+3, 3+1, 1+4, 4+1: every such pair)", **kw)
    cov["two_characters"] = cov2
    cov["harnesses"] = dict(cov["harnesses"], **cov2["harnesses"])
    cov["harnesses_successful"] += cov2["harnesses_successful"]
    cov["solver_s"] = round(cov["solver_s"] + cov2["solver_s"], 1)
    cov["violations"] = cov["violations"] + cov2["violations"]
    cov["bounds"] = cov["bounds"] + "; " + cov2["bounds"] + "; longer strings are outside the solver's claim (the loop body keeps no state besides the sink, but that argument is not checked mechanically)"
    rc_k = 1 if 1 in (rc_k, rc_k2) else max(rc_k, rc_k2)
    wall = time.time() - t0
    report.write_evidence(prop, tier, seed, "model_checking", {
        "evaluations": max(1, cov["harnesses_successful"]), "distinct_nontrivial": max(2, len(harnesses)),
        "rule": "one Kani harness per UTF-8 length class of the single character (all scalar values of that class are one symbolic input); the concrete stage runs simulated requests against the real crate",
        "samples": [{"harness": h, "verdict": v} for h, v in cov["harnesses"].items()][:3],
        "kani": cov,
        "end_to_end_concrete": dict(stats, projects_used=tags, findings=len(findings)),
        "registered_units_decided_by_z3": gstats,
        "functions_encoded": list(cov["functions_encoded"] or []) + ["code generated by leptos_i18n_macro with cfg!(feature = dynamic_load) && cfg!(feature = ssr): literal accessors, builders (build_string), strings accessors / get_translations with <Unit as TranslationUnit>::register() as an emission (evaluated symbolically by verif-host built with those features)"],
        "bounds": cov["bounds"],
        "solver_s": cov["solver_s"],
        "inconclusive": inconclusive,
    }, wall, [
        "solver parts: write_js_string (Kani) and which unit each key's accessors register (z3 over the locale, generated code); the assembly of the script around the literals (RegisterCtx::register / to_array: HashMap, locale names, namespace names, brackets, commas) is covered by the concrete stage only",
        "locale names and namespace names are identifiers (C13 / configuration), they are written unescaped by to_array",
        "a unit is 'used' by a read when it is the unit of the key's effective locale (C03) and namespace; units whose table is needed for the rendered text must be listed, no unit outside the used ones may be",
        "expected strings of a unit = the table baked into the generated code (C11 ties it to the source literals)",
        "node %s evaluates the script as a classic script body" % subprocess.run(["node", "--version"], capture_output=True, text=True).stdout.strip(),
    ], violations + len(cov["violations"]))
    print("property=C17 tier=%s kani=%s projects=%d requests=%d reads=%d units=%d strings=%d findings=%d inconclusive=%d wall_s=%.1f" % (
        tier, cov["harnesses"], stats["projects"], stats["requests"], stats["reads"], stats["units_listed"], stats["strings_compared"], len(findings), len(inconclusive), wall))
    if violations or rc_k == 1:
        return 1
    for i in inconclusive:
        print("INCONCLUSIVE property=C17 %s" % i)
    if inconclusive or rc_k == 2 or stats["projects"] == 0:
        return 2
    return 0


if __name__ == "__main__":
    sys.exit(run(os.environ.get("VERIF_TIER", "quick"), int(os.environ.get("VERIF_SEED", "0"))))
