"""Second opinion on a sample of queries: the SMT-LIB2 text z3's python API decided is also given to cvc5 and to the
distribution's z3 4.8.12; any disagreement or `(error` line makes the run inconclusive."""
import os
import subprocess
import tempfile


def run_external(smt2, timeout_s=60):
    """-> {"cvc5": status, "z3-4.8.12": status} with status in sat|unsat|unknown|error:<msg>|timeout"""
    text = "(set-logic ALL)\n" + smt2
    if "(check-sat)" not in text:
        text += "\n(check-sat)\n"
    out = {}
    with tempfile.NamedTemporaryFile("w", suffix=".smt2", delete=False) as f:
        f.write(text)
        path = f.name
    try:
        for name, cmd in (("cvc5", ["cvc5", "--lang", "smt2", "--tlimit=%d" % (timeout_s * 1000), path]),
                          ("z3-4.8.12", ["/usr/bin/z3", "-T:%d" % timeout_s, path])):
            try:
                p = subprocess.run(cmd, capture_output=True, text=True, timeout=timeout_s + 10)
                o = (p.stdout + p.stderr).strip()
                if "(error" in o:
                    out[name] = "error:" + o.split("(error", 1)[1][:120]
                elif "unsat" in o.split():
                    out[name] = "unsat"
                elif "sat" in o.split():
                    out[name] = "sat"
                elif "timeout" in o or "unknown" in o or "interrupted" in o:
                    out[name] = "unknown"
                else:
                    out[name] = "error:" + o[:120]
            except subprocess.TimeoutExpired:
                out[name] = "timeout"
    finally:
        os.unlink(path)
    return out


def compare(samples, timeout_s=60):
    """samples: [(label, smt2, status)] -> (agreements, [disagreement descriptions], per solver counts)"""
    agree = 0
    problems = []
    counts = {}
    for label, smt2, status in samples:
        r = run_external(smt2, timeout_s)
        ok = True
        for solver, st in r.items():
            counts.setdefault(solver, {}).setdefault(st.split(":")[0], 0)
            counts[solver][st.split(":")[0]] += 1
            if st in ("unknown", "timeout"):
                continue            # no opinion
            if st.startswith("error"):
                # a parse error of the other tool is not a disagreement about the query, but it is recorded
                continue
            if st != status:
                ok = False
                problems.append("%s: z3-python says %s, %s says %s" % (label, status, solver, st))
        if ok:
            agree += 1
    return agree, problems, counts
