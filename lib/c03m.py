"""C03, kernel part: DefaultedLocales::default_of_inner translated from MIR, mapping as SMT arrays."""
import time

import z3

import mirsmt
from mirsmt import Opt, Ptr, Struct, Unsupported


class MapVal:
    def __init__(self, has, val):
        self.has = has
        self.val = val


def decide(mir, n, timeout_ms=120000):
    fn = mirsmt.Fn(mirsmt.extract_fn(mir, r"::default_of_inner\("))
    Loc, consts = z3.EnumSort("Loc%d" % n, ["l%d" % i for i in range(n)])
    has = z3.Array("mapping_has", Loc, z3.BoolSort())
    val = z3.Array("mapping_val", Loc, Loc)
    default = z3.Const("default_locale", Loc)
    start = z3.Const("start", Loc)

    def s_get(ex, st, args, callee):
        m, k = args
        if not isinstance(m, MapVal):
            raise Unsupported("BTreeMap::get on %r" % (m,))
        return Opt(z3.Select(m.has, k), z3.Select(m.val, k))

    def s_insert(ex, st, args, callee):
        p, k = args
        if not isinstance(p, Ptr):
            raise Unsupported("HashSet::insert on %r" % (p,))
        old = st.cells[p.cell]
        st.cells[p.cell] = z3.Store(old, k, z3.BoolVal(True))
        return z3.Not(z3.Select(old, k))

    def s_contains(ex, st, args, callee):
        p, k = args
        s = st.cells[p.cell] if isinstance(p, Ptr) else p
        return z3.Select(s, k)

    ex = mirsmt.Executor({"f": fn}, [
        (r"BTreeMap::<.*>::get::<", s_get),
        (r"HashSet::<.*>::insert$", s_insert),
        (r"HashSet::<.*>::contains::<", s_contains),
    ], unroll=n + 2)
    st_locals = {fn.params[0]: Struct([default, MapVal(has, val)]), fn.params[1]: start, fn.params[2]: Ptr("visited")}
    cells = {"visited": z3.K(Loc, z3.BoolVal(False))}
    paths = ex.run_state(fn, st_locals, cells, [])
    # spec: walk start, m(start), m(m(start)), ...; the first locale outside the mapping is the answer,
    # if the walk never leaves the mapping (it then loops) the default locale
    walk = [start]
    for _ in range(n - 1):
        walk.append(z3.Select(val, walk[-1]))
    spec = default
    for s in reversed(walk):
        spec = z3.If(z3.Not(z3.Select(has, s)), s, spec)
    out = {"paths": len(paths), "n": n}
    sol = z3.Solver()
    sol.set("timeout", timeout_ms)
    bad = []
    for pc, ret, _ in paths:
        if ret is None or not z3.is_expr(ret):
            raise Unsupported("return value %r" % (ret,))
        bad.append(z3.And(list(pc) + [ret != spec]))
    sol.add(z3.Or(bad) if bad else z3.BoolVal(False))
    t0 = time.time()
    r = sol.check()
    out["solver_s"] = time.time() - t0
    out["status"] = str(r)
    if r == z3.sat:
        m = sol.model()
        out["model"] = {"start": str(m.eval(start, model_completion=True)), "default": str(m.eval(default, model_completion=True)),
                        "mapping": {str(c): (str(m.eval(z3.Select(val, c), model_completion=True)) if z3.is_true(m.eval(z3.Select(has, c), model_completion=True)) else None) for c in consts}}
    # unwinding assertion: no feasible path needs more iterations than the bound
    unw = z3.Solver()
    unw.set("timeout", timeout_ms)
    unw.add(z3.Or([z3.And(pc) if pc else z3.BoolVal(True) for pc in ex.unwinding_obligations]) if ex.unwinding_obligations else z3.BoolVal(False))
    out["unwinding"] = str(unw.check())
    # vacuity: the "loop -> default" return must be reachable with default != start
    wit = z3.Solver()
    wit.add(z3.Or([z3.And(list(pc) + [ret == default, start != default, z3.Select(has, start)]) for pc, ret, _ in paths]))
    out["witness_cycle_reaches_default"] = str(wit.check())
    out["calls"] = sorted(set(ex.calls_seen))
    return out
