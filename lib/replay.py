"""Native replay: a real crate that expands leptos_i18n::load_locales!() on the project's files and prints
td_string!/td_display! at concrete locale / arguments. Used (a) to confirm solver counterexamples before a
VIOLATION is printed and (b) to validate the symbolic evaluator (its term, evaluated concretely, must print
what the real binary prints)."""
import json
import os
import shutil
import subprocess

import hostrun
import smt

VERIF = hostrun.VERIF
TEMPLATE = os.path.join(VERIF, "replay", "template")
CACHE = os.path.join(VERIF, ".cache")
CRATE = os.path.join(CACHE, "replay-crate")
TARGET = os.path.join(CACHE, "replay-target")


class ReplayError(Exception):
    pass


def rust_str(s):
    out = ['"']
    for ch in s:
        o = ord(ch)
        if ch == '"':
            out.append('\\"')
        elif ch == "\\":
            out.append("\\\\")
        elif 32 <= o < 127:
            out.append(ch)
        else:
            out.append("\\u{%x}" % o)
    out.append('"')
    return "".join(out)


def rust_num(ty, v):
    if ty in ("f32", "f64"):
        if isinstance(v, str):
            if v == "NaN":
                return "%s::NAN" % ty
            if v == "inf":
                return "%s::INFINITY" % ty
            if v == "-inf":
                return "%s::NEG_INFINITY" % ty
            if "/" in v:
                a, b = v.split("/")
                v = float(int(a)) / float(int(b))
            else:
                v = float(v)
        r = repr(float(v))
        if r in ("inf", "-inf", "nan"):
            return {"inf": "%s::INFINITY", "-inf": "%s::NEG_INFINITY", "nan": "%s::NAN"}[r] % ty
        return "%s%s" % (r, ty)
    if ty == "plural":
        return "%du64" % (int(v) % (1 << 64))
    return "(%d as %s)" % (int(v), ty) if int(v) < 0 else "%d%s" % (int(v), ty)


def metadata_of(project_dir):
    text = open(os.path.join(project_dir, "Cargo.toml")).read()
    i = text.index("[package.metadata.leptos-i18n]")
    return text[i:]


_LOCK = None


def lock():
    """One replay at a time per sandbox (the crate directory is shared); released when the process exits or unlock()."""
    global _LOCK
    import fcntl
    os.makedirs(CACHE, exist_ok=True)
    if _LOCK is None:
        _LOCK = open(os.path.join(CACHE, "replay.lock"), "w")
    fcntl.flock(_LOCK, fcntl.LOCK_EX)


def unlock():
    import fcntl
    if _LOCK is not None:
        fcntl.flock(_LOCK, fcntl.LOCK_UN)


def setup_crate(project_dir, body, router=False):
    lock()
    os.makedirs(CRATE, exist_ok=True)
    os.makedirs(os.path.join(CRATE, "src"), exist_ok=True)
    cargo = open(os.path.join(TEMPLATE, "Cargo.toml.in")).read().replace("@METADATA@", metadata_of(project_dir))
    cargo = cargo.replace("@EXTRA_DEPS@", ('leptos_i18n_router = { path = "/repo/leptos_i18n_router", features = ["verif_hooks", "ssr"] }\n'
                                             'leptos_router = { version = "0.7.7", default-features = false, features = ["ssr"] }') if router else "")
    with open(os.path.join(CRATE, "Cargo.toml"), "w") as f:
        f.write(cargo)
    if os.path.exists("/repo/Cargo.lock") and not os.path.exists(os.path.join(CRATE, "Cargo.lock")):
        shutil.copy("/repo/Cargo.lock", os.path.join(CRATE, "Cargo.lock"))
    ldir = os.path.join(CRATE, "locales")
    if os.path.isdir(ldir):
        shutil.rmtree(ldir)
    shutil.copytree(os.path.join(project_dir, "locales"), ldir)
    main = open(os.path.join(TEMPLATE, "src", "main.rs.in")).read().replace("@BODY@", body)
    with open(os.path.join(CRATE, "src", "main.rs"), "w") as f:
        f.write(main)


def call_expr(macro, locale_ident, keypath, fields, values, counts, scope_depth=0, comp_kind=None):
    """td_string!(Locale::en, a.b, x = "..", count = 3u8, <b> = "b")"""
    args = ["Locale::%s" % locale_ident, ".".join(keypath)]
    if scope_depth:
        # same key read through a scoped locale: scope_locale!(Locale::x, a.b) then the rest of the path
        args = ["scope_locale!(Locale::%s, %s)" % (locale_ident, ".".join(keypath[:scope_depth])), ".".join(keypath[scope_depth:])]
    view = macro == "td_view"
    for f in fields:
        if f.startswith("comp_"):
            n = f[len("comp_"):]
            # comp(children) = ⟦n⟧children⟦/n⟧ : deliberately not the literal tag syntax, so that a tag left as plain text
            # cannot be mistaken for an applied component
            if comp_kind and not view:
                # the library's own DisplayComponent implementations: &str, String, DisplayComp with k attributes
                if comp_kind == "str":
                    args.append("<%s> = %s" % (n, rust_str("w" + n)))
                elif comp_kind == "string":
                    args.append("<%s> = String::from(%s)" % (n, rust_str("w" + n)))
                else:
                    k = int(comp_kind[2:])
                    attrs = ", ".join("(%s, %s)" % (rust_str("a%d" % i), rust_str("v%d %s" % (i, n))) for i in range(k))
                    args.append("<%s> = leptos_i18n::display::DisplayComp::new(%s, &[%s])" % (n, rust_str("w" + n), attrs))
            elif view:
                args.append("<%s> = |c: leptos::children::ChildrenFn| leptos::view! { %s {c()} %s }" % (n, rust_str(OPEN % n), rust_str(CLOSE % n)))
            else:
                args.append("<%s> = |f: &mut core::fmt::Formatter<'_>, c: &dyn Fn(&mut core::fmt::Formatter<'_>) -> core::fmt::Result| { f.write_str(%s)?; c(f)?; f.write_str(%s) }"
                            % (n, rust_str(OPEN % n), rust_str(CLOSE % n)))
        else:
            n = f[len("var_"):]
            if f in counts:
                num = rust_num(counts[f]["ty"], counts[f]["v"])
                args.append("%s = %s" % (n, ("move || " + num) if view else num))
            else:
                args.append("%s = %s" % (n, rust_str(values.get(f, "<" + f + ">"))))
    if view:
        return "render(td!(%s))" % ", ".join(args)
    return "%s!(%s)" % (macro, ", ".join(args))


OPEN = "\u27e6%s\u27e7"
CLOSE = "\u27e6/%s\u27e7"


def html_tag(n):
    # leptos' view! needs a known html element name; the rendered tag is mapped back to the component name
    return "span"


def run_requests(project_dir, requests, timeout=900):
    """requests: [{"locale": ident, "path": [...], "fields": [...], "strings": {...}, "nums": {field: {"ty","v"}}, "macro": "td_string"}]
    -> list of texts (or {"error":..})"""
    lines = []
    for i, r in enumerate(requests):
        e = call_expr(r.get("macro", "td_string"), r["locale"], r["path"], r["fields"], r.get("strings", {}), r.get("nums", {}), r.get("scope_depth", 0), r.get("comp_kind"))
        lines.append('    println!("{}\\t{}", %d, hex(&%s.to_string()));' % (i, e))
    setup_crate(project_dir, "\n".join(lines))
    env = dict(os.environ, CARGO_NET_OFFLINE="true", CARGO_TARGET_DIR=TARGET)
    try:
        p = subprocess.run(["cargo", "run", "--quiet"], cwd=CRATE, env=env, capture_output=True, text=True, timeout=timeout)
    finally:
        unlock()
    if p.returncode != 0:
        raise ReplayError("replay crate failed (rc=%d): %s" % (p.returncode, p.stderr[-3000:]))
    out = [None] * len(requests)
    for l in p.stdout.split("\n"):
        if "\t" in l:
            i, h = l.split("\t", 1)
            out[int(i)] = bytes.fromhex(h).decode("utf-8")
    return out


def normalise_view(html_text, fields):
    """to_html() of a td! view -> the text td_string! would give with components written as <name>..</name>.
    Only usable when no two components are nested ambiguously: every component is rendered as <span>."""
    import html as _html
    return _html.unescape(html_text)


# ---------------------------------------------------------------------------------- concrete evaluation of terms
def eval_term(t, env):
    """env: {"locale": ident, "strings": {var: str}, "nums": {field: python number}, "cat": callable(locale, rule, n)}"""
    k = t["t"]
    if k == "str":
        return t["v"]
    if k == "var":
        n = t["n"]
        if n in env["nums"]:
            return show_num(env["nums"][n])
        return env["strings"].get(n, "<" + n + ">")
    if k == "cat":
        return "".join(eval_term(x, env) for x in t["a"])
    if k == "ite":
        return eval_term(t["a"], env) if eval_cond(t["c"], env) else eval_term(t["b"], env)
    if k == "app":
        f = t["f"]
        if f.startswith("comp_"):
            n = f[len("comp_"):]
            inner = eval_term(t["a"][0]["v"], env)
            ck = env.get("comp")
            if ck in ("str", "string"):
                return "<w%s>%s</w%s>" % (n, inner, n)
            if ck:
                attrs = "".join(' a%d="v%d %s"' % (i, i, n) for i in range(int(ck[2:])))
                return "<w%s%s>%s</w%s>" % (n, attrs, inner, n)
            return (OPEN % n) + inner + (CLOSE % n)
        raise ReplayError("cannot evaluate %s concretely" % f)
    if k == "unreach":
        return "\x00UNREACHABLE"
    raise ReplayError("term %r" % k)


def show_num(n):
    ty, v = n["ty"], n["v"]
    if ty in ("f32", "f64"):
        return n.get("shown") or repr(v)
    return str(v)


def num_val(n, env):
    if n["n"] == "field":
        return env["nums"][n["name"]]["v"]
    if n["ty"] in ("f32", "f64"):
        return float(n["v"])
    return int(n["v"])


def eval_cond(c, env):
    k = c["c"]
    if k == "true":
        return True
    if k == "false":
        return False
    if k == "loc":
        return env["locale"] in c["in"]
    if k == "and":
        return all(eval_cond(x, env) for x in c["a"])
    if k == "or":
        return any(eval_cond(x, env) for x in c["a"])
    if k == "not":
        return not eval_cond(c["a"], env)
    if k == "cmp":
        a, b = num_val(c["l"], env), num_val(c["r"], env)
        if isinstance(a, float) and a != a or isinstance(b, float) and b != b:
            return False
        return {"eq": a == b, "le": a <= b, "lt": a < b}[c["op"]]
    if k == "cateq":
        x = c["x"]
        loc = env["locale"] if x["loc"]["l"] == "sym" else x["loc"]["v"]
        return env["cat"](loc, x["rule"].lower(), num_val(x["x"], env)).lower() == c["v"].lower()
    raise ReplayError("cond %r" % k)
