"""C14 (second sentence, `get_new_path`): the function that builds the URL for a locale switch, from rustc MIR.

`get_new_path` + its three closures are executed with mirsmt (z3 strings).  Symbolic: the rest of the path (any
number of non-empty slash-free segments), the query string and the fragment; enumerated: the locale set, the old and
the new locale, and the four documented spellings of the base path (`foo`, `/foo`, `foo/`, `/foo/`) plus `/` and ``.
Summaries (contracts, listed in the evidence): `Memo::with_untracked(f)` = `f(&value)`; `Mutex::lock().unwrap()`,
`Arc`/guard/`Vec`/`String` deref = identity; `HashMap::get` = a free optional; `PathBuilder` = the string it will
build (`push` trims '/' on both sides and skips empty pieces, `build` gives "/" for the empty builder — the MIR of
`push` itself is decided in c14b); `localize_path` = either `None` without pushing anything or `Some(())` after
pushing the path's segments unchanged (routes without localized segments; the localized ones are c14b's subject).

Specification (written independently): for pathname = /<base>[/<old locale>]<rest> (old locale prefix present iff the
old locale is not the default) the result is /<base>[/<new locale>]<rest> ("/" if that is empty), followed by
"?"+query if the query is not empty and "#"+fragment if the fragment is not empty.
"""
import os
import re
import time

import z3

import mirsmt
from mirsmt import Opt, Ptr, Struct, Unsupported, State

LOCALE_SETS = [["en", "fr", "de"], ["en", "en-US", "fr"]]
BASES = [("", ["", "/"]), ("foo", ["foo", "/foo", "foo/", "/foo/"])]

SLASH = z3.StringVal("/")


def seg_re():
    # one or more non-empty segments each preceded by one '/', or nothing
    anyc = z3.AllChar(z3.ReSort(z3.StringSort()))
    not_slash = z3.Diff(anyc, z3.Re(SLASH))
    sep = z3.Union(z3.Re(SLASH), z3.Re(z3.StringVal("?")), z3.Re(z3.StringVal("#")))
    ch = z3.Diff(anyc, sep)
    return z3.Star(z3.Concat(z3.Re(SLASH), z3.Plus(ch)))


class Side:
    def __init__(self):
        self.cons = []
        self.n = 0
        self.memo = {}

    def fresh(self, base, sort="s"):
        self.n += 1
        return z3.String("%s_%d" % (base, self.n)) if sort == "s" else z3.Bool("%s_%d" % (base, self.n))


def trim_slashes(side, s, start=True, end=True):
    s = z3.simplify(s)
    if z3.is_string_value(s):
        v = s.as_string()
        v = v.lstrip("/") if start else v
        v = v.rstrip("/") if end else v
        return z3.StringVal(v)
    key = (s.sexpr(), start, end)
    if key in side.memo:
        return side.memo[key]
    slashes = z3.Star(z3.Re(SLASH))
    pre, mid, post = side.fresh("pre"), side.fresh("mid"), side.fresh("post")
    side.cons += [s == z3.Concat(pre, mid, post), z3.InRe(pre, slashes), z3.InRe(post, slashes)]
    if start:
        side.cons.append(z3.Not(z3.PrefixOf(SLASH, mid)))
    else:
        side.cons.append(z3.Length(pre) == 0)
    if end:
        side.cons.append(z3.Not(z3.SuffixOf(SLASH, mid)))
    else:
        side.cons.append(z3.Length(post) == 0)
    side.memo[key] = mid
    return mid


class Pieces:
    """A string as a list of pieces: a concrete str, ("seg", v) a non-empty '/'-free symbolic string, or ("sym", v) any
    symbolic string.  Trimming, prefix stripping and emptiness of the path are then decided structurally, not by z3."""

    def __init__(self, items):
        out = []
        for it in items:
            if isinstance(it, str):
                if not it:
                    continue
                if out and isinstance(out[-1], str):
                    out[-1] += it
                    continue
            out.append(it)
        self.items = out

    def term(self):
        ts = [z3.StringVal(i) if isinstance(i, str) else i[1] for i in self.items]
        if not ts:
            return z3.StringVal("")
        return ts[0] if len(ts) == 1 else z3.Concat(ts)

    def concrete(self):
        return "".join(self.items) if all(isinstance(i, str) for i in self.items) else None

    def no_sym(self):
        return all(isinstance(i, str) or i[0] == "seg" for i in self.items)

    def is_empty(self):
        """python bool when decidable, else a z3 Bool"""
        if any(isinstance(i, str) or i[0] == "seg" for i in self.items):
            return False
        if not self.items:
            return True
        return z3.And([z3.Length(i[1]) == 0 for i in self.items])

    def trim(self, start, end):
        if not self.no_sym():
            raise Unsupported("trim of a string with an unconstrained symbolic piece")
        items = list(self.items)
        if start:
            while items and isinstance(items[0], str):
                t = items[0].lstrip("/")
                if t:
                    items[0] = t
                    break
                items.pop(0)
        if end:
            while items and isinstance(items[-1], str):
                t = items[-1].rstrip("/")
                if t:
                    items[-1] = t
                    break
                items.pop()
        return Pieces(items)

    def starts_with(self, p):
        if not self.items:
            return False
        f = self.items[0]
        if isinstance(f, str):
            if len(f) >= len(p):
                return f.startswith(p)
            if not p.startswith(f):
                return False
        if p == "/" and not isinstance(f, str) and f[0] == "seg":
            return False
        raise Unsupported("starts_with(%r) on %r" % (p, self.items[:2]))

    def strip_prefix(self, p):
        """-> list of (z3 condition or None, Pieces or None): the alternatives (None result = no match)"""
        items = list(self.items)
        conds = []
        while p:
            if not items:
                return [(conds, None)]
            f = items[0]
            if isinstance(f, str):
                n = min(len(f), len(p))
                if f[:n] != p[:n]:
                    return [(conds, None)]
                p = p[n:]
                items[0] = f[n:]
                if not items[0]:
                    items.pop(0)
                continue
            if f[0] != "seg":
                raise Unsupported("strip_prefix against an unconstrained symbolic piece")
            v = f[1]
            head = p.split("/")[0]
            if "/" in p:
                # the segment must be exactly the part of the pattern before its next '/'
                if not head:
                    return [(conds, None)]
                yes = Pieces(items[1:]).strip_prefix(p[len(head):])
                return [(conds + [v == z3.StringVal(head)] + c, r) for c, r in yes] + [(conds + [v != z3.StringVal(head)], None)]
            hv = z3.StringVal(p)
            suf = z3.SubString(v, len(p), z3.Length(v) - len(p))  # non-empty and '/'-free because v is
            return [(conds + [v == hv], Pieces(items[1:])),
                    (conds + [z3.PrefixOf(hv, v), z3.Length(v) > len(p)], Pieces([("seg", suf)] + items[1:])),
                    (conds + [z3.Not(z3.PrefixOf(hv, v))], None)]
        return [(conds, Pieces(items))]


counter = [0]


def as_pieces(v):
    if isinstance(v, Pieces):
        return v
    if z3.is_expr(v) and z3.is_string_value(z3.simplify(v)):
        return Pieces([z3.simplify(v).as_string()])
    if z3.is_expr(v) and v.sort() == z3.StringSort():
        return Pieces([("sym", v)])
    raise Unsupported("not a string: %r" % (v,))


def py_or_z3(b):
    return z3.BoolVal(b) if isinstance(b, bool) else b


class Ex(mirsmt.Executor):
    def operand(self, st, o):
        if o[0] == "const":
            m = re.match(r"^ZeroSized: (\{closure@[^}]*\})$", o[1])
            if m:
                v = Struct([])
                v.sig = m.group(1)
                return v
        return super().operand(st, o)

    def rvalue(self, st, r):
        r = r.strip()
        if r.startswith("(") and re.match(r"^\((no_retag )?(copy|move|const) ", r) and r.endswith(")"):
            parts = mirsmt.split_top(r[1:-1])
            if all(re.match(r"^(no_retag )?(copy|move|const) ", p) for p in parts):
                return Struct([self.operand(st, mirsmt.parse_operand(p)) for p in parts])
        v = super().rvalue(st, r)
        m = re.match(r"^(\{closure@[^}]*\})", r)
        if m and isinstance(v, Struct):
            v.sig = m.group(1)
        return v

    def switch_cond(self, v, val):
        if isinstance(v, tuple) and v[0] == "discr":
            o = v[1]
            if o.kind == "Option":
                c = o.is_some if val == 1 else z3.Not(o.is_some)
                return z3.simplify(c) if z3.is_expr(c) else c
        return super().switch_cond(v, val)


def make_summaries(side, locales, fns, counters):
    def ident(ex, st, args, callee):
        return args[0]

    def find_closure(clos):
        sig = getattr(clos, "sig", None)
        for f in fns.values():
            if "{closure" in f.header and sig and sig in f.header.split(") ->")[0]:
                return f
        raise Unsupported("closure body for %r not found" % sig)

    def s_with_untracked(ex, st, args, callee):
        memo_value, clos = args
        fn = find_closure(clos)
        st0 = State(dict(zip(fn.params, [clos, memo_value])), dict(st.cells), list(st.pc), {})
        outs = []
        for pc, ret, cells in ex.run_from(fn, st0, "bb0"):
            st2 = State(dict(st.locals), dict(cells), list(pc), dict(st.visits))
            if isinstance(ret, Pieces):
                # the returned String becomes a cell so that `&mut new_path` can be written through
                counters["cell"] += 1
                cid = "string%d" % counters["cell"]
                st2.cells[cid] = ret
                ret = Ptr(cid)
            outs.append((st2, ret if ret is not None else ("unit",)))
        return ("__multi__", outs)

    def s_pb_default(ex, st, args, callee):
        counters["cell"] += 1
        cid = "builder%d" % counters["cell"]
        st.cells[cid] = Pieces([])
        return Ptr(cid)

    def pb_push(st, b, s):
        t = as_pieces(s).trim(True, True)
        e = t.is_empty()
        if not isinstance(e, bool):
            raise Unsupported("PathBuilder::push of a possibly empty symbolic string")
        if not e:
            st.cells[b.cell] = Pieces(st.cells[b.cell].items + ["/"] + t.items)

    def s_pb_push(ex, st, args, callee):
        b, s = args
        if not isinstance(b, Ptr):
            raise Unsupported("PathBuilder::push on %r" % (b,))
        pb_push(st, b, s)
        return ("unit",)

    def s_pb_build(ex, st, args, callee):
        cur = st.cells[args[0].cell]
        return cur if cur.items else Pieces(["/"])

    def s_default(ex, st, args, callee):
        return ("loc", locales[0])

    def s_ne(ex, st, args, callee):
        a, b = args
        if not (isinstance(a, tuple) and isinstance(b, tuple) and a[0] == b[0] == "loc"):
            raise Unsupported("L::ne on %r %r" % (a, b))
        return z3.BoolVal(a[1] != b[1])

    def s_l_eq(ex, st, args, callee):
        a, b = args
        if not (isinstance(a, tuple) and isinstance(b, tuple) and a[0] == b[0] == "loc"):
            raise Unsupported("L::eq on %r %r" % (a, b))
        return z3.BoolVal(a[1] == b[1])

    def s_as_str(ex, st, args, callee):
        l = args[0]
        if not (isinstance(l, tuple) and l[0] == "loc"):
            raise Unsupported("as_str of %r" % (l,))
        return Pieces([l[1]])

    def s_strip_prefix(ex, st, args, callee):
        s, p = as_pieces(args[0]), as_pieces(args[1]).concrete()
        if p is None:
            raise Unsupported("strip_prefix with a symbolic pattern")
        outs = []
        for conds, res in s.strip_prefix(p):
            st2 = st.fork(z3.And(conds) if conds else z3.BoolVal(True))
            outs.append((st2, Opt(z3.BoolVal(res is not None), res)))
        return ("__multi__", outs)

    def trimmer(start, end):
        def f(ex, st, args, callee):
            if args[1] != ("char", "/"):
                raise Unsupported("%s with %r" % (callee, args[1]))
            return as_pieces(args[0]).trim(start, end)
        return f

    def s_unwrap_or_default(ex, st, args, callee):
        o = args[0]
        if z3.is_true(z3.simplify(o.is_some)):
            return o.payload
        if z3.is_false(z3.simplify(o.is_some)):
            return ("loc", locales[0])
        raise Unsupported("unwrap_or_default of a symbolic option")

    def s_map_get(ex, st, args, callee):
        return Opt(side.fresh("route_table_has_locale", "b"), ("route_segments",))

    def s_localize_path(ex, st, args, callee):
        path, _old, _new, b = args
        none_st = st.fork(z3.BoolVal(True))
        some_st = st.fork(z3.BoolVal(True))
        pb_push(some_st, b, path)
        return ("__multi__", [(none_st, Opt(z3.BoolVal(False), None)), (some_st, Opt(z3.BoolVal(True), ("unit",)))])

    def s_is_some(ex, st, args, callee):
        return args[0].is_some

    def s_is_empty(ex, st, args, callee):
        v = args[0]
        if isinstance(v, Ptr):
            v = st.cells[v.cell]
        return py_or_z3(as_pieces(v).is_empty())

    def s_push_char(ex, st, args, callee):
        p, c = args
        if not (isinstance(p, Ptr) and isinstance(c, tuple) and c[0] == "char"):
            raise Unsupported("String::push %r %r" % (p, c))
        st.cells[p.cell] = Pieces(st.cells[p.cell].items + [c[1]])
        return ("unit",)

    def s_push_str(ex, st, args, callee):
        p, v = args
        if not isinstance(p, Ptr):
            raise Unsupported("String::push_str on %r" % (p,))
        st.cells[p.cell] = Pieces(st.cells[p.cell].items + as_pieces(v).items)
        return ("unit",)

    def s_starts_with(ex, st, args, callee):
        s, p = args
        if isinstance(p, tuple) and p[0] == "char":
            p = p[1]
        else:
            p = as_pieces(p).concrete()
        if p is None:
            raise Unsupported("starts_with a symbolic pattern")
        return z3.BoolVal(as_pieces(s).starts_with(p))

    def s_filter(ex, st, args, callee):
        o, clos = args
        if z3.is_false(z3.simplify(o.is_some)):
            return o
        fn = find_closure(clos)
        outs = []
        for pc, ret, _ in ex.run(fn, [clos, o.payload], pc=st.pc):
            if not z3.is_bool(ret):
                raise Unsupported("filter closure returned %r" % (ret,))
            r = z3.simplify(ret)
            if not (z3.is_true(r) or z3.is_false(r)):
                raise Unsupported("filter closure with a symbolic verdict")
            st2 = State(dict(st.locals), dict(st.cells), list(pc), dict(st.visits))
            outs.append((st2, Opt(z3.And(o.is_some, r), o.payload)))
        return ("__multi__", outs)

    def s_unwrap_or(ex, st, args, callee):
        o, d = args
        c = z3.simplify(o.is_some)
        if z3.is_true(c):
            return o.payload
        if z3.is_false(c):
            return d
        raise Unsupported("unwrap_or of a symbolic option")

    return [
        (r"WithUntracked>::with_untracked::<", s_with_untracked),
        (r"^<Arc<.*> as Deref>::deref$", ident),
        (r"Mutex::<.*>::lock$", ident),
        (r"^Result::<.*MutexGuard.*>::unwrap$", ident),
        (r"MutexGuard<.*> as Deref>::deref$", ident),
        (r"^<Vec<.*> as Deref>::deref$", ident),
        (r"^<String as Deref>::deref$", ident),
        (r"^String::as_str$", ident),
        (r"PathBuilder<'_> as (std::default::)?Default>::default$", s_pb_default),
        (r"PathBuilder::<'_>::new$", s_pb_default),
        (r"PathBuilder::<'_>::push$", s_pb_push),
        (r"PathBuilder::<'_>::build$", s_pb_build),
        (r"^<L as (std::default::)?Default>::default$", s_default),
        (r"^<L as PartialEq>::ne$", s_ne),
        (r"^<L as PartialEq>::eq$", s_l_eq),
        (r"Locale>::as_str$", s_as_str),
        (r"strip_prefix::<&str>$", s_strip_prefix),
        (r"trim_start_matches::<char>$", trimmer(True, False)),
        (r"trim_end_matches::<char>$", trimmer(False, True)),
        (r"trim_matches::<char>$", trimmer(True, True)),
        (r"Option::<L>::unwrap_or_default$", s_unwrap_or_default),
        (r"^HashMap::<L, .*>::get::<L>$", s_map_get),
        (r"^localize_path::<", s_localize_path),
        (r"^(std::option::)?Option::<.*>::is_some$", s_is_some),
        (r"^String::is_empty$", s_is_empty),
        (r"impl str>::is_empty$", s_is_empty),
        (r"^String::push$", s_push_char),
        (r"^String::push_str$", s_push_str),
        (r"impl str>::starts_with::<", s_starts_with),
        (r"Option::<&str>::filter::<", s_filter),
        (r"Option::<&str>::unwrap_or$", s_unwrap_or),
    ]


def load_fns(mir):
    fns = {"main": mirsmt.Fn(mirsmt.extract_fn(mir, r"^fn (routing::)?get_new_path\("))}
    for l in mir.splitlines():
        if l.startswith("fn ") and re.match(r"^fn (routing::)?get_new_path::\{closure", l):
            name = l.split("(")[0]
            fns[name] = mirsmt.Fn(mirsmt.extract_fn(mir, "^" + re.escape(name) + r"\("))
    return fns


def decide_one(mir, locales, base_name, base_spelling, old, new, timeout_ms, nsegs):
    """old: locale name or None (`locale` argument None); nsegs: number of symbolic segments after the locale prefix.
    -> dict(status, model, secs, paths)"""
    fns = load_fns(mir)
    side = Side()
    counters = {"cell": 0}
    ex = Ex(fns, make_summaries(side, locales, fns, counters), unroll=4)
    segs = [z3.String("seg%d" % i) for i in range(nsegs)]
    search, hashv = z3.String("search"), z3.String("hash")
    default = locales[0]
    old_eff = old if old is not None else default
    prefix = ("/" + base_name if base_name else "") + ("/" + old_eff if old_eff != default else "")
    rest_items = []
    for v in segs:
        rest_items += ["/", ("seg", v)]
    pathname = Pieces([prefix] + rest_items)
    if not pathname.items:
        pathname = Pieces(["/"])  # the browser never reports an empty pathname
    domain = [z3.Length(search) <= 4, z3.Length(hashv) <= 4]
    anyc = z3.AllChar(z3.ReSort(z3.StringSort()))
    seg_chars = z3.Plus(z3.Diff(anyc, z3.Union(z3.Re(SLASH), z3.Re(z3.StringVal("?")), z3.Re(z3.StringVal("#")))))
    for v in segs:
        domain += [z3.InRe(v, seg_chars), z3.Length(v) <= 8]
    if old_eff == default and segs:
        # no locale prefix in the URL: a first segment spelled like a locale name would be read as one (first sentence of C14)
        domain += [segs[0] != z3.StringVal(l) for l in locales]
    location = Struct([pathname, Pieces([("sym", search)]), ("query",), Pieces([("sym", hashv)]), ("state",)])
    old_arg = Opt(z3.BoolVal(old is not None), ("loc", old) if old is not None else None)
    results = ex.run(fns["main"], [location, Pieces([base_spelling]), ("loc", new), old_arg, Struct([("route_table",)])])
    exp_path = Pieces([("/" + base_name if base_name else "") + ("/" + new if new != default else "")] + rest_items)
    if not exp_path.items:
        exp_path = Pieces(["/"])
    expected = z3.Concat(exp_path.term(), z3.If(z3.Length(search) == 0, z3.StringVal(""), z3.Concat(z3.StringVal("?"), search)),
                         z3.If(z3.Length(hashv) == 0, z3.StringVal(""), z3.Concat(z3.StringVal("#"), hashv)))
    out = {"status": "unsat", "model": None, "secs": 0.0, "paths": len(results), "unwinding": len(ex.unwinding_obligations), "calls": sorted(set(ex.calls_seen)), "queries": 0}
    if not results:
        raise Unsupported("no returning path")
    if ex.unwinding_obligations:
        raise Unsupported("a path ends in `unreachable` or exceeds the unrolling bound")
    cover = []
    for pc, ret, cells in results:
        val = cells[ret.cell] if isinstance(ret, Ptr) else ret
        if not isinstance(val, Pieces):
            raise Unsupported("return value %r" % (ret,))
        cover.append(z3.And(list(pc)) if pc else z3.BoolVal(True))
        s = z3.Solver()
        s.set("timeout", timeout_ms)
        s.add(side.cons)
        s.add(domain)
        s.add(list(pc))
        s.add(val.term() != expected)
        t0 = time.time()
        r = s.check()
        out["secs"] += time.time() - t0
        out["queries"] += 1
        if r == z3.sat:
            m = s.model()
            ev = lambda e: m.eval(e, model_completion=True).as_string()
            out["status"] = "sat"
            out["model"] = {"pathname": ev(pathname.term()), "search": ev(search), "hash": ev(hashv), "base_path": base_spelling, "old": old, "new": new,
                            "encoded_result": ev(val.term()), "expected": ev(expected), "locales": locales}
            return out
        if r == z3.unknown:
            out["status"] = "unknown"
            out["reason"] = s.reason_unknown()
            return out
    # coverage (also the vacuity guard): the returning paths cover the whole domain
    s = z3.Solver()
    s.set("timeout", timeout_ms)
    s.add(side.cons)
    s.add(domain)
    s.add(z3.Not(z3.Or(cover)))
    t0 = time.time()
    r = s.check()
    out["secs"] += time.time() - t0
    out["queries"] += 1
    if r != z3.unsat:
        out["status"] = "uncovered" if r == z3.sat else "unknown"
    return out


def cases(tier):
    for locales in LOCALE_SETS if tier != "quick" else LOCALE_SETS[:1] + [LOCALE_SETS[1]]:
        default = locales[0]
        for base_name, spellings in BASES:
            for sp in spellings:
                for old in [None] + locales:
                    for new in locales:
                        if (old or default) == new:
                            continue
                        yield locales, base_name, sp, old, new


NATIVE = '''
    let cases: &[(&str, &str, &str, &str, &str, Option<&str>)] = &[@CASES@];
    leptos::prelude::Owner::new().with(|| {
        for (i, (p, s, h, b, n, o)) in cases.iter().enumerate() {
            let n: Locale = n.parse().unwrap();
            let o: Option<Locale> = o.map(|o| o.parse().unwrap());
            let r = leptos_i18n_router::verif_hooks::get_new_path::<Locale>(p, s, h, b, n, o, vec![]);
            println!("{}\\t{}", i, hex(&r));
        }
    });
'''


def native(locales, models):
    """the real get_new_path (verif_hooks forwarder, empty route table) on concrete requests -> list of results"""
    import subprocess
    import model
    import replay
    import report
    proj = model.Project(locales[0], locales, {l: {"k": model.S("x")} for l in locales})
    d = os.path.join(report.VERIF, "work", "c14c_native")
    proj.write(d)
    rs = replay.rust_str
    body = NATIVE.replace("@CASES@", ", ".join("(%s, %s, %s, %s, %s, %s)" % (
        rs(m["pathname"]), rs(m["search"]), rs(m["hash"]), rs(m["base_path"]), rs(m["new"]), ("Some(%s)" % rs(m["old"])) if m["old"] is not None else "None") for m in models))
    replay.setup_crate(d, body, router=True)
    env = dict(os.environ, CARGO_NET_OFFLINE="true", CARGO_TARGET_DIR=replay.TARGET)
    try:
        p = subprocess.run(["cargo", "run", "--quiet"], cwd=replay.CRATE, env=env, capture_output=True, text=True, timeout=1800)
    finally:
        replay.unlock()
    if p.returncode != 0:
        raise replay.ReplayError(p.stderr[-2000:])
    out = {}
    for l in p.stdout.split("\n"):
        if "\t" in l:
            i, hx = l.split("\t")
            out[int(i)] = bytes.fromhex(hx).decode()
    return [out.get(i) for i in range(len(models))]


def expected_concrete(m):
    """The specification on a concrete request (used for the native validation of the summaries)."""
    locales = m["locales"]
    default = locales[0]
    base = m["base_path"].strip("/")
    p = m["pathname"]
    pre = ("/" + base if base else "") + ("/" + m["old"] if (m["old"] or default) != default else "")
    assert p.startswith(pre) or p == "/"
    rest = p[len(pre):] if p.startswith(pre) else ""
    if rest == "/":
        rest = ""  # the root: the browser reports "/" for the empty path
    r = ("/" + base if base else "") + ("/" + m["new"] if m["new"] != default else "") + rest
    r = r or "/"
    if m["search"]:
        r += "?" + m["search"]
    if m["hash"]:
        r += "#" + m["hash"]
    return r


def witness_role(m):
    b = m["base_path"]
    shape = ("lead" if b.startswith("/") else "nolead") + ("_trail" if b.endswith("/") and b != "/" else "_notrail") if b not in ("", "/") else ("root" if b == "/" else "empty")
    return "base_%s_old_%s" % (shape, "none" if m["old"] is None else ("default" if m["old"] == m["locales"][0] else "nondefault"))
