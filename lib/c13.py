"""C13 (partial): identity methods of the generated Locale enum, decided with z3 strings."""
import copy
import json
import os
import time

import engine_g
import hostrun
import model
import report
import smt
from model import Project, S, T_ite, T_str, C_loc

LOCALE_SETS = [
    ("en", ["en", "fr"]),
    ("en", ["en", "en-US", "en-GB"]),
    ("fr", ["en", "fr", "fr-CA", "fr-FR"]),
    ("ar", ["ar", "he", "en", "fa"]),
    ("zh-Hant", ["zh-Hant", "zh-Hans", "zh", "ja"]),
    ("en", ["fr", "de", "en", "e"] if False else ["fr", "de", "en"]),
    ("pt-BR", ["pt", "pt-BR", "pt-PT", "es-419"]),
    ("sr-Latn-RS", ["sr-Latn-RS", "sr-Cyrl", "sr"]),
    ("en", ["en", "eng", "en-Latn-US-valencia"]),
    ("de", ["de"]),
    ("en", ["fr", "de"]),                    # default not listed: must still come first
    ("it", ["fr", "es", "pt"]),
    ("en", ["en", "fr", "en-US", "pt-br", "zh-hant-tw", "SR-latn"]),      # names that are not in canonical BCP-47 casing
    ("en", ["pa-Arab", "pa", "en", "uz", "uz-Arab", "ar", "he", "sr-Cyrl", "sr-Latn"]),   # same language, scripts of opposite direction
]


def subst_var(term, name, repl):
    if isinstance(term, dict):
        if term.get("t") == "var" and term.get("n") == name:
            return copy.deepcopy(repl)
        return {k: subst_var(v, name, repl) for k, v in term.items()}
    if isinstance(term, list):
        return [subst_var(x, name, repl) for x in term]
    return term


def chain(pairs, default):
    t = default
    for cond, val in reversed(pairs):
        t = T_ite(cond, val, t)
    return t


_DIR_CACHE = {}


def direction_oracle(names):
    import subprocess
    missing = [n for n in names if n not in _DIR_CACHE]
    if missing:
        p = subprocess.run([hostrun.HOST_BIN, "direction"], input="\n".join(missing) + "\n", capture_output=True, text=True, env=hostrun.ENV)
        for l in p.stdout.split("\n"):
            if "\t" not in l:
                continue
            a, b = l.split("\t")
            _DIR_CACHE[a] = b
    return _DIR_CACHE


def run(tier, seed):
    t0 = time.time()
    prop = "C13"
    try:
        hostrun.build_host()
    except hostrun.BuildFailed as e:
        print("INCONCLUSIVE property=C13 verif-host does not build:\n%s" % e)
        return 2
    cases = []
    for i, (default, locales) in enumerate(LOCALE_SETS):
        files = {l: {"k": S("text " + l)} for l in set(locales) | {default}}
        cases.append(engine_g.Case(Project(default, locales, files), "c13_locales/%d" % i))
    engine_g.prepare(cases, "C13_" + tier)
    results = hostrun.batch([c.dir for c in cases])
    queries = 0
    unsat = 0
    solver_s = 0.0
    inconclusive = []
    violations = []
    samples = []
    twins = 0
    twins_sat = 0
    for c in cases:
        h = results[c.dir]
        proj = c.project
        if h["status"] != "ok":
            violations.append((c, "valid_project_rejected", h.get("error") or h.get("panic")))
            continue
        le = h["locale_enum"]
        order = proj.locale_order()
        idents = [proj.ident(l) for l in order]
        name_of = dict(zip(idents, order))
        # concrete structural facts
        if h["locales"] != idents:
            violations.append((c, "enum_variants", {"generated": h["locales"], "configured": idents}))
        if h["default"] != proj.ident(proj.default):
            violations.append((c, "default_variant", {"generated": h["default"], "configured": proj.default}))
        ga = le.get("get_all_list")
        if not isinstance(ga, list) or sorted(ga) != sorted(idents) or len(ga) != len(set(ga)) or ga[0] != proj.ident(proj.default):
            violations.append((c, "get_all", {"generated": ga, "configured": idents}))
        as_str = le["as_str_term"]
        from_str = le["from_str_term"]
        if "err" in as_str or "err" in from_str:
            inconclusive.append((c.tag, as_str.get("err") or from_str.get("err")))
            continue
        for t_ in (le.get("direction_term", {}), le.get("as_icu_locale_term", {})):
            if "err" in t_:
                inconclusive.append((c.tag, t_["err"]))
        # reference
        ref_as_str = chain([(C_loc([i]), T_str(name_of[i])) for i in idents[:-1]], T_str(name_of[idents[-1]]))
        trimmed = {"t": "app", "f": "trim", "a": [{"a": "term", "v": {"t": "var", "n": "s"}}]}
        ref_from_str = chain([({"c": "streq", "x": trimmed, "v": name_of[i]}, T_str("ok:" + i)) for i in idents], T_str("err"))
        # text direction agrees with CLDR; ICU locale is the one of the configured name
        dirs = direction_oracle(order)
        dir_term = le.get("direction_term", {"err": "no direction"})
        icu_term = le.get("as_icu_locale_term", {"err": "no as_icu_locale"})
        ref_dir = chain([(C_loc([i]), T_str("leptos_i18n::Direction::" + dirs[name_of[i]])) for i in idents[:-1]],
                        T_str("leptos_i18n::Direction::" + dirs[name_of[idents[-1]]]))
        ref_icu = chain([(C_loc([i]), T_str('locale!("%s")' % name_of[i])) for i in idents[:-1]], T_str('locale!("%s")' % name_of[idents[-1]]))
        roundtrip = subst_var(from_str, "s", as_str)
        ref_roundtrip = chain([(C_loc([i]), T_str("ok:" + i)) for i in idents[:-1]], T_str("ok:" + idents[-1]))
        qs = [("as_str == configured name", as_str, ref_as_str),
              ("from_str(s) == Ok(l) iff trim(s) == name(l), for every string s", from_str, ref_from_str),
              ("from_str(as_str(l)) == Ok(l)", roundtrip, ref_roundtrip),
              ("direction(l) == CLDR direction of the configured name", dir_term, ref_dir),
              ("as_icu_locale(l) == locale!(configured name)", icu_term, ref_icu)]
        # the cookie codec (codee FromToStringCodec) encodes with Display and decodes with FromStr
        disp = le.get("display_term")
        if disp is not None:
            if "err" in disp:
                inconclusive.append((c.tag, "Display for the locale enum: " + disp["err"]))
            else:
                qs.append(("Display prints the configured name (what the cookie stores)", disp, ref_as_str))
                qs.append(("from_str(to_string(l)) == Ok(l) (cookie round trip)", subst_var(from_str, "s", disp), ref_roundtrip))
        for label, a, b in qs:
            try:
                ctx = smt.ctx_for(h["locales"], a, b)
                r = smt.differ(ctx, a, b, timeout_ms=30000 if tier == "quick" else 120000)
            except smt.Inconclusive as e:
                inconclusive.append((c.tag, "%s: %s" % (label, e)))
                continue
            queries += 1
            solver_s += r.secs
            if r.status == "unsat":
                unsat += 1
            elif r.status == "sat":
                violations.append((c, label, r.model))
            else:
                inconclusive.append((c.tag, "%s: %s %s" % (label, r.status, r.reason)))
        # vacuity twin: a reference that parses one more string must be distinguishable
        twin = chain([({"c": "streq", "x": trimmed, "v": name_of[idents[0]].upper() + "x"}, T_str("ok:" + idents[0]))], ref_from_str)
        ctx = smt.ctx_for(h["locales"], from_str, twin)
        r = smt.differ(ctx, from_str, twin, timeout_ms=30000)
        twins += 1
        twins_sat += 1 if r.status == "sat" else 0
        if len(samples) < 4:
            samples.append({"locales": order, "default": proj.default, "from_str": engine_g._short(from_str, 300)})
    # ---- serde: LocaleVisitor from MIR (engine M)
    serde_cov = {}
    try:
        import c13serde, mirsmt, replay, subprocess
        mir = mirsmt.dump_mir("leptos_i18n", "leptos_i18n.mir")
        serde_runs = []
        for c in cases[:: (4 if tier == "quick" else 1)]:
            proj = c.project
            order = proj.locale_order()
            res, calls = c13serde.decide(mir, order, proj.default)
            serde_runs.append({"locales": order, "result": res})
            for entry, bad in res.items():
                queries += 1
                if bad is None:
                    unsat += 1
                    continue
                # native confirmation: the model's string plus strings near the configured names
                cands = [bad["input"]]
                for n in order:
                    if n != proj.default:
                        cands += [n + "-XX", n.upper(), n.lower(), n.replace("-", "_"), n.split("-")[0] + "-ZZ"]
                cands = [x for x in dict.fromkeys(cands)]
                body = c13serde.NATIVE.replace("@INPUTS@", ", ".join(replay.rust_str(x) for x in cands))
                replay.setup_crate(c.dir, body)
                env = dict(os.environ, CARGO_NET_OFFLINE="true", CARGO_TARGET_DIR=replay.TARGET)
                try:
                    p = subprocess.run(["cargo", "run", "--quiet"], cwd=replay.CRATE, env=env, capture_output=True, text=True, timeout=1800)
                finally:
                    replay.unlock()
                reals = {}
                for l in p.stdout.split("\n"):
                    if "\t" in l:
                        i, hx = l.split("\t")
                        reals[int(i)] = bytes.fromhex(hx).decode()
                wrong = []
                for i, x in enumerate(cands):
                    want = x.strip() if x.strip() in order else proj.default
                    if reals.get(i) != want:
                        wrong.append({"input": x, "deserialised_to": reals.get(i), "expected": want})
                if wrong:
                    violations.append((c, "serde deserialisation of a string that is not a configured name", {"entry": entry, "model": bad, "native": wrong[:6]}))
                else:
                    inconclusive.append((c.tag, "serde %s: model %r did not reproduce natively (rc=%s %s)" % (entry, bad, p.returncode, p.stderr[-300:])))
                break
        serde_cov = {"functions_encoded": ["leptos_i18n::__private::LocaleVisitor::visit_borrowed_str / visit_str / visit_string (MIR)"],
                     "runs": serde_runs, "mir_calls_summarised": calls,
                     "bounds": "every input string (z3 strings); FromStr is the generated one (decided above); a fallback through find_locale is over-approximated by 'any configured locale' and confirmed natively with strings near the configured names"}
    except Exception as e:  # Unsupported MIR etc.
        import traceback
        inconclusive.append(("c13_serde", "UNSUPPORTED %s" % e))
    known = report.load_known()
    nviol = 0
    for c, label, detail in violations:
        sig = {"engine": "G13", "kind": label}
        if report.matches(sig, known, prop):
            print("KNOWN-FINDING: property=C13 %s" % label)
            continue
        path = report.write_replay(prop, c.tag.replace("/", "_") + "_" + "".join(ch if ch.isalnum() else "_" for ch in label)[:40],
                                   {"case": c.tag, "dir": c.dir, "what": label, "detail": detail,
                                    "how_to_replay": "%s eval %s | jq .locale_enum   (model gives the string s / locale)" % (hostrun.HOST_BIN, c.dir)})
        print("VIOLATION property=C13 replay=%s" % path)
        print("  %s: %s" % (label, json.dumps(detail, ensure_ascii=False, default=str)[:400]))
        nviol += 1
    wall = time.time() - t0
    report.write_evidence(prop, tier, seed, "translation_validation", {
        "programs": len(cases), "disagreements_checked": len(violations), "samples": samples or [{"note": "none"}],
        "queries": queries, "queries_unsat": unsat, "vacuity_twins": twins, "vacuity_twins_sat": twins_sat,
        "solver": "z3 %s strings + regular expressions" % __import__("z3").get_version_string(), "solver_s": round(solver_s, 3),
        "inconclusive": [list(x) for x in inconclusive], "inconclusive_count": len(inconclusive),
        "serde_visitor": serde_cov,
        "functions_encoded": ["generated Locale::as_str", "generated <Locale as FromStr>::from_str", "generated Locale::get_all (evaluated, compared structurally)", "generated Locale::direction", "generated Locale::as_icu_locale"],
        "bounds": "%d locale sets with regions, scripts, variants, near-duplicates, RTL languages, default not listed first; from_str decided for every string s (unbounded z3 strings), as_str/round trip for every locale." % len(cases),
    }, wall, [
        "str::trim is modelled as: s = pre.t.post with pre, post Unicode White_Space only and t not starting/ending with one",
        "interpretation: surrounding white space is trimmed before comparison, so ' fr ' parsing to fr is not reported",
        "text direction oracle = icu_locid_transform::LocaleDirectionality asked for the configured name (same CLDR data; what is decided is that every locale gets the direction of *its own* name)",
        "serde: the visitor (library code) is executed from MIR; the generated Deserialize impl hands deserialize_str to it (not re-checked); the cookie codec (codee FromToStringCodec -> FromStr/Display) is not claimed",
    ], nviol)
    print("property=C13 tier=%s locale_sets=%d queries=%d unsat=%d twins=%d/%d inconclusive=%d solver_s=%.2f wall_s=%.1f" % (
        tier, len(cases), queries, unsat, twins_sat, twins, len(inconclusive), solver_s, wall))
    if nviol:
        return 1
    for tag, why in inconclusive:
        print("INCONCLUSIVE property=C13 %s: %s" % (tag, why))
    if inconclusive or twins != twins_sat or queries == 0:
        return 2
    return 0
