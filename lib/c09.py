"""C09: loading never panics.

M (deciding, kernel): `ParsedValue::parse_foreign_key_args` — the hand-written scanner that finds the end of the JSON
argument object of `$t(key, {...})` with byte offsets and `split_at` — executed from rustc MIR on strings of k symbolic
Unicode scalar values (any code points; UTF-8 widths and byte offsets are terms).  A panic is a path that does not
return: `split_at` off a character boundary or past the end, an arithmetic overflow assertion, `unreachable`.  z3 proves
that the returning paths cover every string of the length (no input panics) and that every `assert` on a path holds.
The JSON parser behind it (`parse_foreign_key_args_inner`, serde_json) is a call that succeeds or fails.

Concrete stage (supporting, exhaustive inside its bound, not sampled): every string of up to 5 tokens over a 15-token
alphabet of the value grammar's delimiters (813 616 strings) through the real `ParsedValue::new` under catch_unwind; and
adversarial projects (the list of the property: unbalanced delimiters, multi-byte characters next to delimiters, NaN / inf /
overflowing bounds, ranges without fallback hit by a literal count, `$t` inside plural forms and range branches, cycles,
deep nesting, invalid configurations, broken files) through the real loader + generator (verif-host) and the real build
helper (verif-bhost), each with a time limit: no panic, no crash, no hang.
"""
import itertools
import json
import os
import re
import shutil
import subprocess
import sys
import time

import z3

import c11
import hostrun
import mir2
import mirsmt
import report
import second
from mirsmt import Unsupported

WS = [9, 10, 11, 12, 13, 32, 0x85, 0xA0, 0x1680] + list(range(0x2000, 0x200B)) + [0x2028, 0x2029, 0x202F, 0x205F, 0x3000]
C32 = z3.BitVecSort(32)


class M09(mir2.Machine):
    def rvalue(self, st, frame, r, fn=None, stmt=None):
        r = r.strip()
        m = re.match(r"^(?:std::result::)?Result::<.*>::(Ok|Err)\((.*)\)$", r)
        if m:
            return ("result", m.group(1), self.operand(st, frame, mirsmt.parse_operand(m.group(2))))
        if re.match(r"^parse_locales::error::Error::\w+( \{.*\})?$", r):
            return ("error", r.split("::")[3].split(" ")[0])
        m = re.match(r"^(?:std::ops::)?(RangeFrom|RangeTo)::<usize> \{ (start|end): (.*) \}$", r)
        if m:
            return ("range", m.group(1), self.operand(st, frame, mirsmt.parse_operand(m.group(3))))
        return super().rvalue(st, frame, r, fn, stmt)

    def operand(self, st, frame, o):
        if o[0] == "const":
            if re.match(r'^"', o[1]):
                return ("strlit", o[1])
            m = re.match(r"^'(.)'$", o[1])
            if m:
                return z3.BitVecVal(ord(m.group(1)), 32)
            if o[1] == "()":
                return ("unit",)
        return super().operand(st, frame, o)

    def switch_cond(self, v, val):
        if isinstance(v, tuple) and v[0] == "discr" and isinstance(v[1], tuple) and v[1][0] == "result":
            return z3.BoolVal((v[1][1] == "Ok") == (val == 0))
        return super().switch_cond(v, val)


def width(c):
    return z3.If(z3.ULT(c, 0x80), z3.BitVecVal(1, 64), z3.If(z3.ULT(c, 0x800), z3.BitVecVal(2, 64), z3.If(z3.ULT(c, 0x10000), z3.BitVecVal(3, 64), z3.BitVecVal(4, 64))))


def decide_kernel(mir, k, timeout_ms=60000):
    chars = [z3.Const("char_%d" % i, C32) for i in range(k)]
    domain = [z3.And(z3.ULE(c, 0x10FFFF), z3.Not(z3.And(z3.UGE(c, 0xD800), z3.ULE(c, 0xDFFF)))) for c in chars]
    offs = [z3.BitVecVal(0, 64)]
    for c in chars:
        offs.append(z3.simplify(offs[-1] + width(c)))
    inner_fails = z3.Bool("json_arguments_do_not_parse")

    def ret(st, v):
        return [(st, v)]

    def write_ptr(m, st, p, v):
        cur = m.mem_get(st, p[1])
        st.mem[p[1]] = mir2.set_path(cur, p[2], v) if p[2] else v

    def s_char_indices(m, st, args, callee):
        s = m.deref_all(st, args[0])
        if s[0] != "ustr" or s[2] != 0:
            raise Unsupported("char_indices on %r" % (s[0],))
        return ret(st, ("iter", tuple(("tuple", (offs[i], chars[i])) for i in range(k)), 0))

    def s_ident(m, st, args, callee):
        return ret(st, args[0])

    def s_chars(m, st, args, callee):
        s_ = m.deref_all(st, args[0])
        if s_[0] != "ustr":
            raise Unsupported("chars on %r" % (s_[0],))
        return ret(st, ("iter", tuple(s_[1]), 0))

    def s_enumerate(m, st, args, callee):
        it = m.deref_all(st, args[0])
        return ret(st, ("iter", tuple(("tuple", (z3.BitVecVal(i, 64), x)) for i, x in enumerate(it[1][it[2]:])), 0))

    def s_str_len(m, st, args, callee):
        s_ = m.deref_all(st, args[0])
        tot = z3.BitVecVal(0, 64)
        for c in s_[1]:
            tot = tot + width(c)
        return ret(st, z3.simplify(tot))

    def s_next(m, st, args, callee):
        p = args[0]
        it = m.deref_all(st, p)
        if it[2] >= len(it[1]):
            return ret(st, ("opt", z3.BoolVal(False), None))
        write_ptr(m, st, p, ("iter", it[1], it[2] + 1))
        return ret(st, ("opt", z3.BoolVal(True), it[1][it[2]]))

    def s_checked_sub(m, st, args, callee):
        a, b = args
        return ret(st, ("opt", z3.UGE(a, b), a - b))

    def s_len_utf8(m, st, args, callee):
        return ret(st, z3.simplify(width(args[0])))

    def s_split_at(m, st, args, callee):
        s, n = m.deref_all(st, args[0]), args[1]
        if s[0] != "ustr" or s[2] != 0:
            raise Unsupported("split_at on a substring")
        outs = []
        for j in range(k + 1):
            cond = n == offs[j]
            if m.feasible(st, cond):
                outs.append((st.fork(z3.simplify(cond)), ("tuple", (("ustr", tuple(chars[:j]), 0), ("ustr", tuple(chars[j:]), j)))))
        # n not on a character boundary or past the end: str::split_at panics (no return)
        return outs

    def s_trim_start(m, st, args, callee):
        s = m.deref_all(st, args[0])
        outs = []
        cur = st
        cs = list(s[1])
        pos = 0
        while True:
            if pos >= len(cs):
                outs.append((cur, ("ustr", (), s[2] + pos)))
                break
            is_ws = z3.Or([cs[pos] == w for w in WS])
            if m.feasible(cur, z3.Not(is_ws)):
                outs.append((cur.fork(z3.Not(is_ws)), ("ustr", tuple(cs[pos:]), s[2] + pos)))
            if not m.feasible(cur, is_ws):
                break
            cur = cur.fork(is_ws)
            pos += 1
        return outs

    def s_strip_prefix_char(m, st, args, callee):
        s, ch = m.deref_all(st, args[0]), args[1]
        if not s[1]:
            return ret(st, ("opt", z3.BoolVal(False), None))
        outs = []
        c = s[1][0] == ch
        if m.feasible(st, c):
            outs.append((st.fork(c), ("opt", z3.BoolVal(True), ("ustr", tuple(s[1][1:]), s[2] + 1))))
        if m.feasible(st, z3.Not(c)):
            outs.append((st.fork(z3.Not(c)), ("opt", z3.BoolVal(False), None)))
        return outs

    def s_inner(m, st, args, callee):
        outs = []
        if m.feasible(st, inner_fails):
            outs.append((st.fork(inner_fails), ("result", "Err", ("error", "InvalidForeignKeyArgs"))))
        if m.feasible(st, z3.Not(inner_fails)):
            outs.append((st.fork(z3.Not(inner_fails)), ("result", "Ok", ("args",))))
        return outs

    def s_branch(m, st, args, callee):
        r = args[0]
        if r[1] == "Ok":
            return ret(st, ("cf", z3.BoolVal(True), r[2]))
        return ret(st, ("cf", z3.BoolVal(False), ("result", "Err", r[2])))

    def s_from_residual(m, st, args, callee):
        r = m.deref_all(st, args[0])
        return ret(st, ("result", "Err", r[2]))

    def s_opaque(m, st, args, callee):
        return ret(st, ("opaque",))

    summaries = [
        (r"^core::str::<impl str>::char_indices$", s_char_indices),
        (r"^core::str::<impl str>::chars$", s_chars),
        (r"^<Chars<'_> as Iterator>::enumerate$", s_enumerate),
        (r"^core::str::<impl str>::len$", s_str_len),
        (r"as IntoIterator>::into_iter$", s_ident),
        (r"as Iterator>::next$", s_next),
        (r"^core::num::<impl usize>::checked_sub$", s_checked_sub),
        (r"^char::methods::<impl char>::len_utf8$", s_len_utf8),
        (r"^core::str::<impl str>::split_at$", s_split_at),
        (r"^core::str::<impl str>::trim_start$", s_trim_start),
        (r"^core::str::<impl str>::strip_prefix::<char>$", s_strip_prefix_char),
        (r"^ParsedValue::parse_foreign_key_args_inner$", s_inner),
        (r"as Try>::branch$", s_branch),
        (r"as FromResidual<.*>>::from_residual$", s_from_residual),
        (r"^<(key::Key|KeyPath) as Clone>::clone$", s_opaque),
        (r"^<str as ToString>::to_string$", s_opaque),
        (r"as Into<Box<parse_locales::error::Error>>>::into$", s_ident),
    ]
    m = M09(mir, summaries, unroll=k + 3, max_paths=50000)
    st = mir2.St()
    for d in domain:
        st.pc.append(d)
    fn = m.fn(r"::parse_foreign_key_args\(_1: &str, _2: &KeyPath")
    outs = m.call_fn(fn, [("ustr", tuple(chars), 0), ("keypath",), ("key",), ("fkpaths",)], st)
    res = {"chars": k, "paths": len(outs), "status": "unsat", "solver_checks": 0, "solver_s": 0.0, "ok_paths": 0, "err_paths": 0}
    # (1) every assert met on a returning path holds
    for st1, v in outs:
        v = m.deref_all(st1, v)
        if not (isinstance(v, tuple) and v[0] == "result"):
            raise Unsupported("returned %r" % (v,))
        res["ok_paths" if v[1] == "Ok" else "err_paths"] += 1
        for ob in st1.obligations:
            if ob[0] != "assert":
                continue
            s = z3.Solver()
            s.set("timeout", timeout_ms)
            s.add(ob[1])
            s.add(z3.Not(ob[2]))
            t0 = time.time()
            r = second.check(s, 'C09 path query')
            res["solver_s"] += time.time() - t0
            res["solver_checks"] += 1
            if r != z3.unsat:
                res["status"] = "sat" if r == z3.sat else "unknown"
                if r == z3.sat:
                    res["model"] = {"string": model_string(s.model(), chars), "what": "an overflow assertion fails"}
                return finish(res, m)
    # (2) the returning paths cover every string: an uncovered string is one that panics
    s = z3.Solver()
    s.set("timeout", timeout_ms)
    s.add(domain)
    s.add(z3.Not(z3.Or([z3.And(st1.pc) for st1, _ in outs])) if outs else z3.BoolVal(True))
    t0 = time.time()
    r = second.check(s, 'C09 path query')
    res["solver_s"] += time.time() - t0
    res["solver_checks"] += 1
    if r == z3.sat:
        res["status"] = "sat"
        res["model"] = {"string": model_string(s.model(), chars), "what": "no returning path: the function panics on this argument text"}
    elif r != z3.unsat:
        res["status"] = "unknown"
    if m.unwinding:
        res["status"] = "unknown"
    return finish(res, m)


def decide_component_kernel(mir, k, timeout_ms=60000):
    """find_valid_component + find_opening_tag on a value of k symbolic scalar values; find_closing_tag (which decides
    whether an opening tag has its closing tag) is a call that answers None or Some: the loop then skips by the offset
    find_opening_tag computed.  Panic = slicing the value off a character boundary / past its end, or an overflow."""
    chars = [z3.Const("char_%d" % i, C32) for i in range(k)]
    domain = [z3.And(z3.ULE(c, 0x10FFFF), z3.Not(z3.And(z3.UGE(c, 0xD800), z3.ULE(c, 0xDFFF)))) for c in chars]
    offs = [z3.BitVecVal(0, 64)]
    for c in chars:
        offs.append(z3.simplify(offs[-1] + width(c)))
    closes = [z3.Bool("opening_tag_%d_has_its_closing_tag" % i) for i in range(k + 1)]
    calls = {"n": 0}

    def ret(st, v):
        return [(st, v)]

    def sub(a, b):
        return ("ustr", tuple(chars[a:b]), a)

    def bounds(sv):
        return sv[2], sv[2] + len(sv[1])

    def s_index(m, st, args, callee):
        sv, r = m.deref_all(st, args[0]), args[1]
        a, b = bounds(sv)
        if (a, b) != (0, k):
            raise Unsupported("slicing a substring")
        outs = []
        for j in range(k + 1):
            cond = r[2] == offs[j]
            if m.feasible(st, cond):
                outs.append((st.fork(z3.simplify(cond)), sub(j, k) if r[1] == "RangeFrom" else sub(0, j)))
        return outs                # any other offset: the slice panics

    def s_split_once_char(m, st, args, callee):
        sv, ch = m.deref_all(st, args[0]), args[1]
        a, b = bounds(sv)
        outs = []
        none_before = []
        for p in range(a, b):
            hit = z3.And(none_before + [chars[p] == ch])
            if m.feasible(st, hit):
                outs.append((st.fork(z3.simplify(hit)), ("opt", z3.BoolVal(True), ("tuple", (sub(a, p), sub(p + 1, b))))))
            none_before.append(chars[p] != ch)
        miss = z3.And(none_before) if none_before else z3.BoolVal(True)
        if m.feasible(st, miss):
            outs.append((st.fork(z3.simplify(miss)), ("opt", z3.BoolVal(False), None)))
        return outs

    def s_len(m, st, args, callee):
        sv = m.deref_all(st, args[0])
        a, b = bounds(sv)
        return ret(st, z3.simplify(offs[b] - offs[a]))

    def is_ws(c):
        return z3.Or([c == w for w in WS])

    def s_trim(m, st, args, callee):
        sv = m.deref_all(st, args[0])
        a, b = bounds(sv)
        outs = []
        for lo in range(a, b + 1):
            for hi in range(lo, b + 1):
                if lo == b and hi != b:
                    continue
                conds = [is_ws(chars[q]) for q in range(a, lo)] + [is_ws(chars[q]) for q in range(hi, b)]
                if lo < hi:
                    conds += [z3.Not(is_ws(chars[lo])), z3.Not(is_ws(chars[hi - 1]))]
                elif lo != b:
                    continue
                cond = z3.And(conds) if conds else z3.BoolVal(True)
                if m.feasible(st, cond):
                    outs.append((st.fork(z3.simplify(cond)), sub(lo, hi)))
        return outs

    def s_closing(m, st, args, callee):
        i = min(calls["n"], k)
        calls["n"] += 1
        f = closes[i]
        outs = []
        if m.feasible(st, f):
            outs.append((st.fork(f), ("opt", z3.BoolVal(True), ("tuple", (("key",), ("between",), ("after",))))))
        if m.feasible(st, z3.Not(f)):
            outs.append((st.fork(z3.Not(f)), ("opt", z3.BoolVal(False), None)))
        return outs

    def s_opening(m, st, args, callee):
        return m.call_fn(m.fn(r"::find_opening_tag\(_1: &str\)"), list(args), st)

    def s_branch(m, st, args, callee):
        o = args[0]
        return ret(st, ("cf", o[1], o[2]))

    def s_from_residual(m, st, args, callee):
        return ret(st, ("opt", z3.BoolVal(False), None))

    summaries = [
        (r"^<str as std::ops::Index<(std::ops::)?Range(From|To)<usize>>>::index$", s_index),
        (r"^core::str::<impl str>::split_once::<char>$", s_split_once_char),
        (r"^core::str::<impl str>::len$", s_len),
        (r"^core::str::<impl str>::trim$", s_trim),
        (r"^ParsedValue::find_closing_tag$", s_closing),
        (r"^ParsedValue::find_opening_tag$", s_opening),
        (r"as Try>::branch$", s_branch),
        (r"as FromResidual<.*>>::from_residual$", s_from_residual),
    ]
    m = M09(mir, summaries, unroll=k + 3, max_paths=100000)
    st = mir2.St()
    for d in domain:
        st.pc.append(d)
    fn = m.fn(r"::find_valid_component\(_1: &str\)")
    outs = m.call_fn(fn, [sub(0, k)], st)
    res = {"kernel": "find_valid_component", "chars": k, "paths": len(outs), "status": "unsat", "solver_checks": 0, "solver_s": 0.0}
    for st1, v in outs:
        for ob in st1.obligations:
            if ob[0] != "assert":
                continue
            sol = z3.Solver()
            sol.set("timeout", timeout_ms)
            sol.add(ob[1])
            sol.add(z3.Not(ob[2]))
            t0 = time.time()
            r = second.check(sol, 'C09 path query')
            res["solver_s"] += time.time() - t0
            res["solver_checks"] += 1
            if r != z3.unsat:
                res["status"] = "sat" if r == z3.sat else "unknown"
                if r == z3.sat:
                    res["model"] = {"string": model_string(sol.model(), chars), "what": "an overflow assertion fails"}
                return finish(res, m)
    sol = z3.Solver()
    sol.set("timeout", timeout_ms)
    sol.add(domain)
    sol.add(z3.Not(z3.Or([z3.And(st1.pc) for st1, _ in outs])) if outs else z3.BoolVal(True))
    t0 = time.time()
    r = second.check(sol, 'C09 path query')
    res["solver_s"] += time.time() - t0
    res["solver_checks"] += 1
    if r == z3.sat:
        res["status"] = "sat"
        res["model"] = {"string": model_string(sol.model(), chars), "what": "no returning path: slicing the value panics"}
    elif r != z3.unsat:
        res["status"] = "unknown"
    if m.unwinding:
        res["status"] = "unknown"
    return finish(res, m)


def finish(res, m):
    res["mir_fns"] = sorted(m.mir_fns_run)
    res["calls"] = sorted(m.calls_seen)
    res["solver_s"] = round(res["solver_s"], 3)
    return res


def model_string(mdl, chars):
    out = []
    for c in chars:
        v = mdl.eval(c, model_completion=True).as_long()
        out.append(chr(v) if v < 0x110000 and not (0xD800 <= v <= 0xDFFF) else "?")
    return "".join(out)


# ------------------------------------------------------------------------------------------ concrete stage
ALPHABET = ["{", "}", "<", ">", "/", "$t(", ")", ",", ":", "\"", "a", " ", "é", "|", "..", "\u00a0"]


def enumerate_values(maxlen):
    inp = "\n".join(json.dumps("".join(t)) for n in range(0, maxlen + 1) for t in itertools.product(ALPHABET, repeat=n))
    p = subprocess.run([hostrun.HOST_BIN, "parsevalue"], input=inp, capture_output=True, text=True, env=hostrun.ENV, timeout=1800)
    lines = [json.loads(l) for l in p.stdout.split("\n") if l.strip()]
    pan = [l for l in lines if "panic" in l]
    done = next((l for l in lines if "done" in l), {"done": 0})
    return done, pan


def adversarial_projects():
    """name -> (files per locale (dict or raw text), config text or None)"""
    P = {}
    one = lambda d: {"en": d}
    P["range_nofallback_lit"] = (one({"r": ["u8", ["zero", 0], ["one", 1]], "k": "$t(r, {\"count\": 5})"}), None)
    P["range_nofallback_lit_neg"] = (one({"r": ["i8", ["zero", 0]], "k": "x $t(r, {\"count\": -128}) y"}), None)
    for i, b in enumerate(["NaN..", "inf..", "..=-inf", "NaN", "..inf", "1e999..", "-inf..=inf"]):
        P["nonfinite_bound_%d" % i] = (one({"r": ["f32" if i % 2 else "f64", ["a", b], ["b"]]}), None)
    P["overflow_bound"] = (one({"r": ["u8", ["a", "300"], ["b"]]}), None)
    P["neg_unsigned"] = (one({"r": ["u8", ["a", "-1"], ["b"]]}), None)
    P["excl_end_at_min"] = (one({"r": ["i8", ["a", "..-128"], ["b"]]}), None)
    P["impossible_range"] = (one({"r": ["i32", ["a", "5..2"], ["b"]]}), None)
    P["range_only_type"] = (one({"r": ["u8"]}), None)
    P["range_empty"] = (one({"r": []}), None)
    P["range_bad_type"] = (one({"r": ["u7", ["a", 0], ["b"]]}), None)
    P["range_nested"] = (one({"r": ["u8", [["u8", ["x", 0], ["y"]], 0], ["b"]]}), None)
    P["range_two_fallbacks"] = (one({"r": ["u8", ["a"], ["b"]]}), None)
    P["range_fallback_first"] = (one({"r": ["u8", ["a"], ["b", 0]]}), None)
    P["range_map_no_value"] = (one({"r": ["u8", {"count": 0}]}), None)
    P["range_count_huge"] = (one({"r": ["u8", ["a", 0], ["b"]], "k": "$t(r, {\"count\": 99999999999999999999})"}), None)
    P["range_count_float_for_int"] = (one({"r": ["u8", ["a", 0], ["b"]], "k": "$t(r, {\"count\": 1.5})"}), None)
    P["plural_count_str"] = (one({"p_one": "a", "p_other": "b", "k": "$t(p, {\"count\": \"x\"})"}), None)
    P["plural_count_neg"] = (one({"p_one": "a", "p_other": "b", "k": "$t(p, {\"count\": -3})"}), None)
    P["plural_count_big_float"] = (one({"p_one": "a", "p_other": "b", "k": "$t(p, {\"count\": 1e300})"}), None)
    P["fk_cycle"] = (one({"a": "$t(b)", "b": "$t(a)"}), None)
    P["fk_cycle3_args"] = (one({"a": "$t(b, {\"x\": \"$t(c)\"})", "b": "{{ x }}", "c": "$t(a)"}), None)
    P["fk_self"] = (one({"a": "$t(a)"}), None)
    P["fk_missing"] = (one({"a": "$t(nope)"}), None)
    P["fk_to_group"] = (one({"g": {"x": "y"}, "a": "$t(g)"}), None)
    P["fk_in_plural"] = (one({"p_one": "$t(k)", "p_other": "x $t(k, {\"a\": 1})", "k": "v {{ a }}"}), None)
    P["fk_in_range"] = (one({"r": ["u8", ["$t(k)", 0], ["b $t(k)"]], "k": "v"}), None)
    for i, v in enumerate(["$t(a,", "$t(a, {", "$t(a, {\"x\": 1", "$t(a, {\"x\": \"}\"})", "$t(a, é", "$t(", "$t()", "$t(a", "$t(a)) }}", "$t(a, {}) $t(",
                           "{{", "}}", "{{ }}", "{{ , }}", "{{ x, }}", "{{ x, number(", "{{ x, number() }}", "{{ x, nosuch }}", "{{ éé }}", "{{{{ x }}}}",
                           "<", ">", "</", "</>", "<>", "< >x</ >", "<b>", "</b>", "<b><b></b>", "<b></c>", "<é>x</é>", "<b>x</bé>", "é<b>é</b>é",
                           "si a <b et c\u00a0> d", "ligne<br\u3000>suite", "x <  é> y", "<\u00a0b>x</b\u00a0>", "<b\u2003>", "{{\u00a0x\u00a0}}", "$t(\u00a0a\u00a0)", "<b/>", "<b>x< /b>", "<b>{{</b>}}", "{{<b>}}</b>", "$t(<b>)</b>", "<b>$t(a</b>)"]):
        P["value_%02d" % i] = (one({"a": "target {{ x }}", "k": v}), None)
    P["deep_groups"] = (one(json.loads("{" + "\"g\":{" * 200 + "\"k\":\"x\"" + "}" * 201)), None)
    P["deep_components"] = (one({"k": "<a>" * 400 + "x" + "</a>" * 400}), None)
    P["many_vars"] = (one({"k": " ".join("{{ v%d }}" % i for i in range(600))}), None)
    P["very_deep_json"] = ({"en": '{"k":' * 3000 + '"x"' + "}" * 3000}, None)
    P["empty_file"] = ({"en": ""}, None)
    P["not_object"] = ({"en": "[1,2]"}, None)
    P["trailing_garbage"] = ({"en": '{"k": "v"} xx'}, None)
    P["lone_surrogate"] = ({"en": '{"k": "\\ud83d"}'}, None)
    P["bom"] = ({"en": '﻿{"k": "v"}'}, None)
    P["null_default"] = (one({"k": None}), None)
    P["number_keys"] = (one({"1": "a", "fn": "b", "self": "c", "k-1": "d", "": "e"}), None)
    P["plural_lonely_forms"] = (one({"k_one": "a", "k_two": "b", "k_ordinal_one": "c", "k_ordinal_other": "d", "k_other": "e"}), None)
    cfg = lambda body: body
    P["cfg_no_section"] = (one({"k": "v"}), "RAW:[package]\nname=\"p\"\nversion=\"0.1.0\"\n")
    P["cfg_empty_section"] = (one({"k": "v"}), "")
    P["cfg_no_locales"] = (one({"k": "v"}), 'default = "en"')
    P["cfg_dup_locales"] = (one({"k": "v"}), 'default = "en"\nlocales = ["en", "en"]')
    P["cfg_wrong_types"] = (one({"k": "v"}), 'default = 3\nlocales = "en"')
    P["cfg_inherits_cycle"] = ({"en": {"k": "v"}, "fr": {}, "de": {}}, 'default = "en"\nlocales = ["en", "fr", "de"]\ninherits = { fr = "de", de = "fr" }')
    # a locale that leads into an inheritance cycle it is not part of, keys missing in several locales
    P["cfg_inherits_lead_in_cycle"] = ({"en": {"k": "v", "bye": "bye", "g": {"x": "y"}}, "es": {"k": "es"}, "fr": {}, "it": {"g": {}}},
                                       'default = "en"\nlocales = ["en", "es", "fr", "it"]\ninherits = { es = "fr", fr = "it", it = "fr" }')
    P["cfg_inherits_long_lead_in"] = ({"en": {"k": "v", "n": 3}, "a": {}, "b": {}, "c": {}, "d": {}},
                                      'default = "en"\nlocales = ["en", "a", "b", "c", "d"]\ninherits = { a = "b", b = "c", c = "d", d = "c" }')
    P["cfg_inherits_ring3"] = ({"en": {"k": "v"}, "a": {}, "b": {}, "c": {}}, 'default = "en"\nlocales = ["en", "a", "b", "c"]\ninherits = { a = "b", b = "c", c = "a" }')
    P["plural_empty_base"] = (one({"_one": "a", "_other": "b"}), None)
    P["plural_empty_base_ordinal"] = (one({"_ordinal_one": "a", "_ordinal_other": "b", "k": "v"}), None)
    P["plural_base_underscore"] = (one({"__one": "a", "__other": "b"}), None)
    P["cfg_inherits_self"] = ({"en": {"k": "v"}, "fr": {}}, 'default = "en"\nlocales = ["en", "fr"]\ninherits = { fr = "fr" }')
    P["cfg_missing_file"] = (one({"k": "v"}), 'default = "en"\nlocales = ["en", "fr"]')
    P["cfg_weird_names"] = ({"en": {"k": "v"}}, 'default = "en"\nlocales = ["en", "not a locale!!", ""]')
    # the default locale is not listed (the deserializer accepts that; ConfigFile::new appends and moves it first)
    P["cfg_unlisted_default"] = ({"en": {"k": "v"}, "fr": {"k": "w"}, "de": {"k": "x"}}, 'default = "en"\nlocales = ["fr", "de"]')
    P["cfg_unlisted_default_one"] = ({"en": {"k": "v"}, "fr": {"k": "w"}}, 'default = "en"\nlocales = ["fr"]')
    P["cfg_unlisted_default_empty"] = ({"en": {"k": "v"}}, 'default = "en"\nlocales = []')
    P["cfg_default_last"] = ({"en": {"k": "v"}, "fr": {"k": "w"}, "de": {"k": "x"}}, 'default = "en"\nlocales = ["fr", "de", "en"]')
    P["cfg_unlisted_default_inherits"] = ({"en": {"k": "v"}, "fr": {}, "de": {"k": "x"}}, 'default = "en"\nlocales = ["fr", "de"]\ninherits = { fr = "de" }')
    # a literal count whose CLDR category has no written form in that locale (falls back to _other), every category
    for loc, counts in (("pl", [0, 1, 2, 3, 5, 22, 1.5]), ("ar", [0, 1, 2, 3, 11, 100, 0.5]), ("ru", [1, 2, 5, 21, 1.1]), ("cy", [0, 1, 2, 3, 6, 7]), ("ja", [0, 1]), ("fr", [0, 1, 2, 1000000])):
        for ord_ in ("", "_ordinal"):
            d = {"items%s_other" % ord_: "{{ count }} other"}
            if loc != "ja":
                d["items%s_one" % ord_] = "one"
            for i, c in enumerate(counts):
                d["k%d" % i] = "x $t(items, {\"count\": %s}) y" % json.dumps(c)
            P["plural_lit_count_%s%s" % (loc, ord_)] = ({loc: d}, 'default = "%s"\nlocales = ["%s"]' % (loc, loc))
    P["plural_lit_count_only_other"] = ({"en": {"p_other": "o", "a": "$t(p, {\"count\": 1})", "b": "$t(p, {\"count\": 0})"}, "fr": {"p_one": "u", "p_many": "m", "p_other": "o", "a": "$t(p, {\"count\": 1000000})", "b": "$t(p, {\"count\": 7})"}},
                                        'default = "en"\nlocales = ["en", "fr"]')
    P["cfg_namespaces_missing_dir"] = (one({"k": "v"}), 'default = "en"\nlocales = ["en"]\nnamespaces = ["a", "b"]')
    return P


def write_adversarial(work):
    dirs = []
    for name, (files, cfg) in adversarial_projects().items():
        d = os.path.join(work, name)
        os.makedirs(os.path.join(d, "locales"), exist_ok=True)
        if cfg is not None and cfg.startswith("RAW:"):
            text = cfg[4:]
        else:
            text = '[package]\nname = "p"\nversion = "0.1.0"\n[package.metadata.leptos-i18n]\n' + (cfg if cfg is not None else 'default = "en"\nlocales = ["en"]') + "\n"
        with open(os.path.join(d, "Cargo.toml"), "w") as f:
            f.write(text)
        for l, c in files.items():
            with open(os.path.join(d, "locales", "%s.json" % l), "w", encoding="utf-8", errors="surrogatepass") as f:
                f.write(c if isinstance(c, str) else json.dumps(c, ensure_ascii=False))
        dirs.append(d)
    return dirs


def run_tool(cmd, dirs, timeout_each=60):
    """one process per project: a crash or a hang is attributed to the project"""
    out = {}
    for d in dirs:
        t0 = time.time()
        try:
            p = subprocess.run(cmd, input=d + "\n", capture_output=True, text=True, env=hostrun.ENV, timeout=timeout_each)
        except subprocess.TimeoutExpired:
            out[d] = {"status": "hang", "seconds": timeout_each}
            continue
        j = None
        for l in p.stdout.split("\n"):
            try:
                x = json.loads(l)
                if x.get("dir") == d:
                    j = x
            except Exception:
                pass
        if j is None:
            j = {"status": "crash", "rc": p.returncode, "stderr": p.stderr[-300:]}
        j["seconds"] = round(time.time() - t0, 2)
        out[d] = j
    return out


def run_gen(dirs, timeout_each=60):
    """the real parser + code generator only (`verif-host gen`), one process per project"""
    out = {}
    for d in dirs:
        t0 = time.time()
        try:
            p = subprocess.run([hostrun.HOST_BIN, "gen", d], capture_output=True, text=True, env=hostrun.ENV, timeout=timeout_each)
        except subprocess.TimeoutExpired:
            out[d] = {"status": "hang", "seconds": timeout_each}
            continue
        if p.returncode == 0:
            j = {"status": "ok"}
        elif p.returncode == 3:
            j = {"status": "error", "error": p.stderr[-200:]}
        elif p.returncode == 101:
            j = {"status": "panic", "message": p.stderr[-400:]}
        else:
            j = {"status": "crash", "rc": p.returncode, "stderr": p.stderr[-300:]}
        j["seconds"] = round(time.time() - t0, 2)
        out[d] = j
    return out


def run(tier, seed):
    prop = "C09"
    t0 = time.time()
    hostrun.build_host()
    c11.build_bhost()
    runs, sat, inconclusive = [], [], []
    try:
        mir = mirsmt.dump_mir("leptos_i18n_parser", "parser.mir")
        for k in ([0, 1, 2, 3, 4, 5] if tier == "quick" else [0, 1, 2, 3, 4, 5, 6, 7]):
            try:
                r = decide_kernel(mir, k)
            except Unsupported as e:
                inconclusive.append("kernel %d chars: UNSUPPORTED %s" % (k, e))
                continue
            runs.append(r)
            if r["status"] == "sat":
                sat.append(r)
            elif r["status"] != "unsat":
                inconclusive.append("kernel %d chars: %s" % (k, r["status"]))
        for k in ([0, 1, 2, 3, 4] if tier == "quick" else [0, 1, 2, 3, 4, 5, 6]):
            try:
                r = decide_component_kernel(mir, k)
            except Unsupported as e:
                inconclusive.append("component kernel %d chars: UNSUPPORTED %s" % (k, e))
                continue
            runs.append(r)
            if r["status"] == "sat":
                sat.append(r)
            elif r["status"] != "unsat":
                inconclusive.append("component kernel %d chars: %s" % (k, r["status"]))
    except Unsupported as e:
        inconclusive.append("MIR of leptos_i18n_parser: %s" % e)
    violations = 0
    known = report.load_known()
    # kernel counterexamples: the argument text behind `$t(a,` through the real ParsedValue::new
    for r in sat[:3]:
        text = r["model"]["string"] if r.get("kernel") == "find_valid_component" else "$t(a," + r["model"]["string"]
        p = subprocess.run([hostrun.HOST_BIN, "parsevalue"], input=json.dumps(text) + "\n", capture_output=True, text=True, env=hostrun.ENV)
        pan = [json.loads(l) for l in p.stdout.split("\n") if l.strip().startswith("{\"panic\"") or "\"panic\"" in l]
        path = report.write_replay(prop, "kernel_%s%d" % ("component_" if r.get("kernel") else "", r["chars"]), dict(r, value=text, native=pan[:1], how_to_replay="echo '%s' | host/target/debug/verif-host parsevalue" % json.dumps(text)))
        if pan:
            print("VIOLATION property=C09 replay=%s" % path)
            print("  ParsedValue::new(%s) panics: %s" % (json.dumps(text), pan[0].get("message", "")[:160]))
            violations += 1
        else:
            print("UNCONFIRMED property=C09 the scanner has a non-returning path for %s but ParsedValue::new does not panic on it (%s)" % (json.dumps(text), path))
            inconclusive.append("kernel counterexample not reproduced natively")
    # concrete stage 1: every short value
    maxlen = 4 if tier == "quick" else 5
    done, pan = enumerate_values(maxlen)
    msgs = {}
    for pz in pan:
        msgs.setdefault(pz.get("message", "")[:80], []).append(pz["panic"])
    for msg, vals in list(msgs.items())[:4]:
        sig = {"engine": "N", "stage": "values", "message": msg[:60]}
        if report.matches(sig, known, prop) is not None:
            continue
        path = report.write_replay(prop, "value_%d" % (abs(hash(msg)) % 100000), {"message": msg, "values": vals[:10], "count": len(vals), "signature": sig,
                                   "how_to_replay": "echo '<json string>' | host/target/debug/verif-host parsevalue"})
        print("VIOLATION property=C09 replay=%s" % path)
        print("  ParsedValue::new panics on %d of the enumerated values, e.g. %s: %s" % (len(vals), json.dumps(vals[0]), msg))
        violations += 1
    # concrete stage 2: adversarial projects through loader + generator, and through the build helper
    work = os.path.join(hostrun.VERIF, "work", "C09")
    if os.path.isdir(work):
        shutil.rmtree(work)
    dirs = write_adversarial(work)
    loader = run_gen(dirs)
    helper = run_tool([c11.BHOST_BIN, "options"], dirs)
    printed_known = set()
    stats = {"values_enumerated": done.get("done", 0), "values_ok": done.get("ok"), "values_rejected": done.get("err"), "value_panics": len(pan),
             "projects": len(dirs), "loader": {}, "helper": {}}
    for name, res in (("loader", loader), ("helper", helper)):
        for d, j in res.items():
            stt = j.get("status")
            stats[name][stt] = stats[name].get(stt, 0) + 1
            if stt in ("panic", "crash", "hang"):
                sig = {"engine": "N", "stage": name, "project": os.path.basename(d), "status": stt, "api": ",".join(j.get("panics", []))}
                kf = report.matches(sig, known, prop)
                if kf is not None:
                    if kf["id"] not in printed_known:
                        print("KNOWN-FINDING: property=C09 %s" % kf.get("description", kf["id"]))
                        printed_known.add(kf["id"])
                    continue
                violations += 1
                if violations <= 6:
                    path = report.write_replay(prop, "%s_%s" % (name, os.path.basename(d)), {"project_dir": d, "tool": name, "result": j, "signature": sig,
                                               "how_to_replay": ("host/target/debug/verif-host gen %s" % d) if name == "loader" else ("echo %s | bhost/target/debug/verif-bhost options" % d)})
                    print("VIOLATION property=C09 replay=%s" % path)
                    print("  %s on project %s: %s" % (name, os.path.basename(d), stt))
    wall = time.time() - t0
    so, so_problems = second.verdict()
    for pr in so_problems:
        inconclusive.append("second opinion: " + pr)
    report.write_evidence(prop, tier, seed, "model_checking", {
        "evaluations": sum(r["paths"] for r in runs) or 1, "distinct_nontrivial": max(2, len(runs)),
        "rule": "one symbolic execution of parse_foreign_key_args per string length; every MIR path is one evaluation; z3 checks each overflow assertion on it and that the returning paths cover every string of that length",
        "samples": [{k: v for k, v in r.items() if k not in ("calls", "mir_fns")} for r in runs[:3]] or [{"note": "none"}],
        "states": sum(r["paths"] for r in runs) or 1, "transitions": sum(r["solver_checks"] for r in runs) or 1,
        "traces_validated_against_impl": stats["values_enumerated"] + stats["projects"],
        "kernel_runs": [{k: v for k, v in r.items() if k not in ("calls", "mir_fns")} for r in runs],
        "solver": "z3 %s" % z3.get_version_string(), "solver_s": round(sum(r["solver_s"] for r in runs), 3),
        "functions_encoded": sorted({f for r in runs for f in r.get("mir_fns", [])}),
        "mir_calls_summarised": sorted({c for r in runs for c in r.get("calls", [])}),
        "concrete_stage": stats,
        "bounds": "solver: the argument text of a foreign key, 0..5 (thorough 7) arbitrary Unicode scalar values (UTF-8 widths and byte offsets symbolic), the JSON parser behind it succeeds or fails. Concrete: every string of at most %d tokens over the 16-token alphabet %s through ParsedValue::new; %d adversarial projects through loader + generator and through the build helper, 60 s each. Outside: the other scanners of ParsedValue::new (find_variable, find_component ..., only covered by the enumeration), serde_json / toml / ICU internals, stack depth beyond the listed nestings, the yaml / json5 front ends." % (maxlen, json.dumps(ALPHABET, ensure_ascii=False), len(dirs)),
        "second_opinion": so,
        "inconclusive": inconclusive,
    }, wall, [
        "char_indices yields (byte offset, char) with offset = sum of the UTF-8 widths of the preceding characters; str::split_at(n) returns iff n is one of those offsets or the length; trim_start removes White_Space characters; strip_prefix(char) compares the first character",
        "parse_foreign_key_args_inner (serde_json + ParsedValue::new on the argument values) is a call that succeeds or fails",
        "a panic = a path that does not return (split_at off a boundary, a failing overflow assert, unreachable)",
        "concrete stage: panics are caught with catch_unwind in verif-host / verif-bhost; a process that dies (stack overflow, abort) is a crash; no answer within 60 s is a hang",
    ], violations)
    print("property=C09 tier=%s kernel_runs=%d paths=%d sat=%d %s violations=%d inconclusive=%d wall_s=%.1f" % (tier, len(runs), sum(r["paths"] for r in runs), len(sat), json.dumps(stats), violations, len(inconclusive), wall))
    if violations:
        return 1
    for i in inconclusive[:6]:
        print("INCONCLUSIVE property=C09 %s" % i)
    return 2 if inconclusive else 0


if __name__ == "__main__":
    sys.exit(run(os.environ.get("VERIF_TIER", "quick"), int(os.environ.get("VERIF_SEED", "0"))))
