"""C15 (kernel level): initial locale of a context / sub-context, executed from rustc MIR (engine M, lib/mir2.py).

Functions taken from the MIR of leptos_i18n (regenerated every run): init_i18n_context_with_options,
init_subcontext_with_options (+ its two closures), init_i18n_subcontext_with_options, derive_initial_locale_signal
(+ closures), init_context_inner (+ the RenderEffect closure), fetch_locale (+ closures), fetch_locale_csr,
fetch_locale_ssr, signal_maybe_once_then, signal_once_then (+ closure).

The reactive primitives of leptos / leptos-use are *summaries* (their documented contract, listed in evidence):
a Memo is its closure, its value is the closure run with `None` as previous value (first evaluation); a Signal holds
a value or is derived from a closure; use_cookie_with_options gives a signal holding `Some(l)` iff the cookie holds
the name of locale l; use_locales_with_options gives the request's language list; find_locale is an uninterpreted
function of that list (C12 decides what it returns); use_context gives the parent context if there is one.

Property decided by z3 for every combination of the symbolic inputs: the locale stored in the new context is
  top level:   cookie (if cookies are enabled and the cookie holds a locale), else best match of the language list;
  sub-context: cookie (if a cookie name was given and it holds a locale), else the explicit initial locale if given,
               else the parent's locale if there is a parent, else best match of the language list.
"""
import json
import os
import re
import subprocess
import sys
import time

import z3

import mir2
import mirsmt
import report
import second
from mirsmt import Unsupported

LOC = z3.BitVecSort(8)


def opt(has, val):
    return ("opt", has, val)


def ite_val(c, a, b):
    """if-then-else over model values (locales are bit-vectors, options are ("opt", has, val))"""
    if isinstance(a, tuple) and a[0] == "opt" and isinstance(b, tuple) and b[0] == "opt":
        va = a[2] if a[2] is not None else b[2]
        vb = b[2] if b[2] is not None else a[2]
        return ("opt", z3.If(c, a[1], b[1]), None if va is None else ite_val(c, va, vb))
    if z3.is_expr(a) and z3.is_expr(b):
        return z3.If(c, a, b)
    if a == b:
        return a
    raise Unsupported("ite over %r / %r" % (a, b))


class M15(mir2.Machine):
    def rvalue(self, st, frame, r, fn=None, stmt=None):
        r = r.strip()
        m = re.match(r"^I18nContext::<L(?:, [^>]*)?> \{ locale_signal: (.*), scope_marker: .* \}$", r)
        if m:
            return ("tuple", (self.operand(st, frame, mir2.parse_operand(m.group(1))), ("unit",)))
        return super().rvalue(st, frame, r, fn, stmt)

    def operand(self, st, frame, o):
        if o[0] == "const":
            mc = re.match(r"^ZeroSized: (\{closure@[^}]*\})$", o[1])
            if mc:
                return ("closure", mc.group(1), (), 0)      # a closure without captures
            if re.match(r"^ZeroSized: ", o[1]):
                return ("unit",)
            if re.match(r"^[A-Za-z_][\w:]*::<L>$", o[1]):
                return ("fnitem", o[1])          # a function passed by name
        return super().operand(st, frame, o)


def build_machine(mir, sym):
    """sym: dict of the symbolic inputs."""
    def ret(st, v):
        return [(st, v)]

    def cell_new(m, st, v):
        m.frame_counter += 1
        key = (m.frame_counter, "rwsignal")
        st.mem[key] = v
        return ("rw", key)

    def s_memo_new(m, st, args, callee):
        return ret(st, ("memo", args[0]))

    def eval_memo(m, st, memo):
        memo = m.deref_all(st, memo)
        if isinstance(memo, tuple) and memo[0] == "memoval":
            return [(st, memo[1])]          # a memo given as input: its current value is a symbolic input
        if not (isinstance(memo, tuple) and memo[0] == "memo"):
            raise Unsupported("Memo::get on %r" % (memo,))
        # first evaluation: previous value None (leptos: `Memo::new(|prev: Option<&T>| ..)`)
        return m.call_closure(st, memo[1], [opt(z3.BoolVal(False), None)])

    def s_memo_get(m, st, args, callee):
        return eval_memo(m, st, args[0])

    def s_signal_get(m, st, args, callee):
        s = m.deref_all(st, args[0])
        if isinstance(s, tuple) and s[0] == "sig":
            return ret(st, s[1])
        if isinstance(s, tuple) and s[0] == "derived":
            return m.call_closure(st, s[1], [])
        if isinstance(s, tuple) and s[0] == "rw":
            return ret(st, st.mem[s[1]])
        if isinstance(s, tuple) and s[0] == "memo":
            return eval_memo(m, st, s)
        raise Unsupported("Signal::get on %r" % (s,))

    def s_signal_with(m, st, args, callee):
        s = m.deref_all(st, args[0])
        if not (isinstance(s, tuple) and s[0] == "sig"):
            raise Unsupported("Signal::with on %r" % (s,))
        m.frame_counter += 1
        key = (m.frame_counter, "with_value")
        st.mem[key] = s[1]
        return m.call_closure(st, args[1], [("ptr", key, ())])

    def s_rw_new(m, st, args, callee):
        return ret(st, cell_new(m, st, args[0]))

    def s_rw_set(m, st, args, callee):
        s = m.deref_all(st, args[0])
        if isinstance(s, tuple) and s[0] == "rw":
            st.mem[s[1]] = args[1]
            return ret(st, ("unit",))
        if isinstance(s, tuple) and s[0] == "write":
            return ret(st, ("unit",))        # the cookie setter: what is written back does not feed the initial locale
        raise Unsupported("Set::set on %r" % (s,))

    def s_render_effect(m, st, args, callee):
        # RenderEffect::new runs its closure once, immediately, with no previous value
        outs = m.call_closure(st, args[0], [opt(z3.BoolVal(False), None)])
        return [(st1, ("effect",)) for st1, _ in outs]

    def s_ignore(m, st, args, callee):
        return ret(st, ("unit",))

    def s_signal_fn(m, st, args, callee):
        return ret(st, ("tuple", (("sig", args[0]), ("write",))))

    def s_ident(m, st, args, callee):
        return ret(st, args[0])

    def s_use_cookie(m, st, args, callee):
        sym["cookie_read"] = True
        return ret(st, ("tuple", (("sig", opt(sym["has_cookie"], sym["cookie"])), ("write",))))

    def s_use_locales(m, st, args, callee):
        return ret(st, ("sig", ("accept_languages",)))

    def s_find_locale(m, st, args, callee):
        return ret(st, sym["best"])

    def s_use_context(m, st, args, callee):
        return ret(st, opt(sym["has_parent"], sym.get("parent_ctx", ("tuple", (("rwparent",), ("unit",))))))

    def s_get_locale_untracked(m, st, args, callee):
        c = m.deref_all(st, args[0])
        if isinstance(c, tuple) and c[0] == "tuple" and c[1][0] == ("rwparent",):
            return ret(st, sym["parent"])
        # a context made of a real cell: run the method from MIR
        return m.call_fn(m.fn(r"::get_locale_untracked\(_1: I18nContext<L, S>\)"), list(args), st)

    def s_opt_map(m, st, args, callee):
        o, clos = args
        if not (isinstance(o, tuple) and o[0] == "opt"):
            raise Unsupported("Option::map on %r" % (o,))
        outs = []
        if m.feasible(st, o[1]):
            st1 = st.fork(o[1])
            for st2, v in m.call_closure(st1, clos, [o[2]]):
                outs.append((st2, opt(z3.BoolVal(True), v)))
        if m.feasible(st, z3.Not(o[1])):
            outs.append((st.fork(z3.Not(o[1])), opt(z3.BoolVal(False), None)))
        return outs

    def s_opt_or(m, st, args, callee):
        a, b = args
        return ret(st, ite_val(a[1], a, b))

    def s_opt_unwrap_or(m, st, args, callee):
        a, d = args
        if a[2] is None:
            return ret(st, d)
        return ret(st, ite_val(a[1], a[2], d))

    def s_opt_is_none(m, st, args, callee):
        a = m.deref_all(st, args[0])
        return ret(st, z3.Not(a[1]))

    def s_opt_unwrap_or_default(m, st, args, callee):
        a = args[0]
        if "Signal<" in callee:
            # Option<Signal<Option<L>>>::unwrap_or_default: Signal::default() is a signal holding T::default() = None
            dflt = ("sig", opt(z3.BoolVal(False), None))
            if a[2] is None:
                return ret(st, dflt)
            outs = []
            if m.feasible(st, a[1]):
                outs.append((st.fork(a[1]), a[2]))
            if m.feasible(st, z3.Not(a[1])):
                outs.append((st.fork(z3.Not(a[1])), dflt))
            return outs
        return ret(st, ("options",))

    def s_opt_is_some(m, st, args, callee):
        a = m.deref_all(st, args[0])
        return ret(st, a[1])

    def s_opt_or_else(m, st, args, callee):
        a, clos = args
        outs = []
        if m.feasible(st, a[1]):
            outs.append((st.fork(a[1]), a))
        if m.feasible(st, z3.Not(a[1])):
            outs.extend(m.call_closure(st.fork(z3.Not(a[1])), clos, []))
        return outs

    def s_opt_unwrap_or_else(m, st, args, callee):
        a, clos = args
        outs = []
        if a[2] is not None and m.feasible(st, a[1]):
            outs.append((st.fork(a[1]), a[2]))
        if m.feasible(st, z3.Not(a[1])):
            outs.extend(m.call_closure(st.fork(z3.Not(a[1])), clos, []))
        return outs

    def s_opt_and_then(m, st, args, callee):
        o, clos = args
        outs = []
        if o[2] is not None and m.feasible(st, o[1]):
            outs.extend(m.call_closure(st.fork(o[1]), clos, [o[2]]))
        if m.feasible(st, z3.Not(o[1])):
            outs.append((st.fork(z3.Not(o[1])), opt(z3.BoolVal(False), None)))
        return outs

    def s_opt_filter(m, st, args, callee):
        # Option::filter(pred): Some(x) if pred(&x) else None
        o, clos = args
        outs = []
        if o[2] is not None and m.feasible(st, o[1]):
            st1 = st.fork(o[1])
            m.frame_counter += 1
            key = (m.frame_counter, "filter_arg")
            st1.mem[key] = o[2]
            for st2, v in m.call_closure(st1, clos, [("ptr", key, ())]):
                if not z3.is_bool(v):
                    raise Unsupported("Option::filter predicate returned %r" % (v,))
                if m.feasible(st2, v):
                    outs.append((st2.fork(v), opt(z3.BoolVal(True), o[2])))
                if m.feasible(st2, z3.Not(v)):
                    outs.append((st2.fork(z3.Not(v)), opt(z3.BoolVal(False), None)))
        if m.feasible(st, z3.Not(o[1])):
            outs.append((st.fork(z3.Not(o[1])), opt(z3.BoolVal(False), None)))
        return outs

    def s_loc_default(m, st, args, callee):
        return ret(st, z3.BitVec("default_locale", 8))

    def s_opt_flatten(m, st, args, callee):
        o = args[0]
        if o[2] is None:
            return ret(st, opt(z3.BoolVal(False), None))
        inner = o[2]
        return ret(st, ("opt", z3.And(o[1], inner[1]), inner[2]))

    def s_bool_then(m, st, args, callee):
        b, f = args
        if z3.is_false(z3.simplify(b)) if z3.is_expr(b) else (b is False):
            return ret(st, opt(z3.BoolVal(False), None))
        # (only `cfg!(feature = "hydrate").then(get_locale_from_html)` occurs: the html `lang` attribute is outside)
        raise Unsupported("bool::then on a condition that is not the constant false")

    def s_loc_eq(m, st, args, callee):
        a, b = m.deref_all(st, args[0]), m.deref_all(st, args[1])
        return ret(st, a == b if "::eq" in callee else a != b)

    def s_signal_derive(m, st, args, callee):
        return ret(st, ("derived", args[0]))

    def s_fn(rx):
        def f(m, st, args, callee):
            return m.call_fn(m.fn(rx), list(args), st)
        return f

    summaries = [
        (r"^leptos::prelude::Memo::<\w+>::new::<", s_memo_new),
        (r"^<leptos::prelude::Memo<\w+> as leptos::prelude::(Get|GetUntracked)>::get(_untracked)?$", s_memo_get),
        (r"^<leptos::prelude::(Signal|RwSignal)<.*> as leptos::prelude::(Get|GetUntracked)>::get(_untracked)?$", s_signal_get),
        (r"^<leptos::prelude::Signal<Vec<String>> as leptos::prelude::With>::with::<", s_signal_with),
        (r"^leptos::prelude::RwSignal::<L>::new$", s_rw_new),
        (r"^<leptos::prelude::(RwSignal<L>|WriteSignal<std::option::Option<L>>) as leptos::prelude::Set>::set$", s_rw_set),
        (r"^leptos::prelude::RenderEffect::<", s_render_effect),
        (r"^leptos::prelude::Effect::<SyncStorage>::new_isomorphic::<", s_ignore),
        (r"^leptos::prelude::on_cleanup::<", s_ignore),
        (r"^leptos::prelude::signal::<std::option::Option<L>>$", s_signal_fn),
        (r"^<leptos::prelude::ReadSignal<.*> as Into<leptos::prelude::Signal<.*>>>::into$", s_ident),
        (r"^<Cow<'_, str> as Deref>::deref$", s_ident),
        (r"^<Vec<String> as Deref>::deref$", s_ident),
        (r"^<T as Clone>::clone$", lambda m, st, args, callee: ret(st, m.deref_all(st, args[0]))),
        (r"^use_cookie_with_options::<L, FromToStringCodec>$", s_use_cookie),
        (r"^use_locales_with_options$", s_use_locales),
        (r"^<L as locale_traits::Locale>::find_locale::<String>$", s_find_locale),
        (r"^leptos::prelude::use_context::<I18nContext<L>>$", s_use_context),
        (r"^I18nContext::<L>::get_locale_untracked$", s_get_locale_untracked),
        (r"^std::option::Option::<I18nContext<L>>::map::<", s_opt_map),
        (r"^std::option::Option::<leptos::prelude::Signal<L>>::map::<", s_opt_map),
        (r"^std::option::Option::<L>::or$", s_opt_or),
        (r"^std::option::Option::<L>::unwrap_or$", s_opt_unwrap_or),
        (r"^std::option::Option::<&?\w+>::is_none$", s_opt_is_none),
        (r"^std::option::Option::<&?\w+>::is_some$", s_opt_is_some),
        (r"^std::option::Option::<L>::or_else::<", s_opt_or_else),
        (r"^std::option::Option::<L>::unwrap_or_else::<", s_opt_unwrap_or_else),
        (r"^std::option::Option::<L>::and_then::<", s_opt_and_then),
        (r"^std::option::Option::<L>::map::<L, ", s_opt_map),
        (r"^std::option::Option::<std::option::Option<L>>::flatten$", s_opt_flatten),
        (r"^std::option::Option::<L>::filter::<", s_opt_filter),
        (r"^<L as (std::default::)?Default>::default$", s_loc_default),
        (r"^core::bool::<impl bool>::then::<", s_bool_then),
        (r"^<L as PartialEq>::(eq|ne)$", s_loc_eq),
        (r"^<leptos::prelude::Signal<Vec<String>> as leptos::prelude::WithUntracked>::with_untracked::<", s_signal_with),
        (r"^get_accepted_locale::<L>$", s_fn(r"^fn get_accepted_locale\(")),
        (r"^fetch_locale::resolve_locale::<L>$", s_fn(r"^fn fetch_locale::resolve_locale\(")),
        (r"^std::option::Option::<.*>::unwrap_or_default$", s_opt_unwrap_or_default),
        (r"^leptos::prelude::Signal::<std::option::Option<L>>::derive::<", s_signal_derive),
        (r"^fetch_locale::<L>$", s_fn(r"^fn fetch_locale\(")),
        (r"^fetch_locale_csr::<L>$", s_fn(r"^fn fetch_locale_csr\(")),
        (r"^fetch_locale_ssr::<L>$", s_fn(r"^fn fetch_locale_ssr\(")),
        (r"^signal_maybe_once_then::<\w+>$", s_fn(r"^fn signal_maybe_once_then\(")),
        (r"^signal_once_then::<\w+>$", s_fn(r"^fn signal_once_then\(")),
        (r"^init_context_inner::<L>$", s_fn(r"^fn init_context_inner\(")),
        (r"^init_subcontext_with_options::<L>$", s_fn(r"^fn init_subcontext_with_options\(")),
        (r"^derive_initial_locale_signal::<L>$", s_fn(r"^fn derive_initial_locale_signal\(")),
    ]
    return M15(mir, summaries, unroll=4, max_paths=2000)


def fresh(prefix):
    return {
        "has_cookie": z3.Bool(prefix + "cookie_holds_a_locale"), "cookie": z3.Const(prefix + "cookie_locale", LOC),
        "best": z3.Const(prefix + "best_match_of_language_list", LOC),
        "has_parent": z3.Bool(prefix + "has_parent_context"), "parent": z3.Const(prefix + "parent_locale", LOC),
        "has_init": z3.Bool(prefix + "initial_locale_given"), "init": z3.Const(prefix + "initial_locale", LOC),
        "has_name": z3.Bool(prefix + "cookie_name_given"), "enable_cookie": z3.Bool(prefix + "enable_cookie"),
    }


def ctx_locale(m, st, v):
    v = m.deref_all(st, v)
    if not (isinstance(v, tuple) and v[0] == "tuple" and isinstance(v[1][0], tuple) and v[1][0][0] == "rw"):
        raise Unsupported("entry point returned %r" % (v,))
    return st.mem[v[1][0][1]]


def decide_entry(mir, entry, timeout_ms=30000):
    """-> dict(entry, paths, status, model?)"""
    sym = fresh("")
    m = build_machine(mir, sym)
    st0 = mir2.St()
    if entry == "top":
        fn = m.fn(r"^fn init_i18n_context_with_options\(")
        options = ("tuple", (sym["enable_cookie"], ("cookie_name",), ("cookie_options",), ("locales_options",)))
        outs = m.call_fn(fn, [options], st0)
        spec = z3.If(z3.And(sym["enable_cookie"], sym["has_cookie"]), sym["cookie"], sym["best"])
    elif entry == "resolve":
        # Locale::resolve_locale / resolve_locale_with_options: the same precedence without creating a context
        fn = m.fn(r"^fn resolve_locale_with_options\(")
        options = ("tuple", (sym["enable_cookie"], ("cookie_name",), ("cookie_options",), ("locales_options",)))
        outs = [(st1, ("val", v)) for st1, v in m.call_fn(fn, [options], st0)]
        spec = z3.If(z3.And(sym["enable_cookie"], sym["has_cookie"]), sym["cookie"], sym["best"])
    elif entry == "sub":
        fn = m.fn(r"^fn init_i18n_subcontext_with_options\(")
        init = opt(sym["has_init"], ("sig", sym["init"]))
        name = opt(sym["has_name"], ("cookie_name",))
        outs = m.call_fn(fn, [init, name, opt(z3.BoolVal(False), None), opt(z3.BoolVal(False), None)], st0)
        spec = z3.If(z3.And(sym["has_name"], sym["has_cookie"]), sym["cookie"],
                     z3.If(sym["has_init"], sym["init"], z3.If(sym["has_parent"], sym["parent"], sym["best"])))
    elif entry in ("fetch_csr", "fetch_ssr"):
        # fetch_locale_{csr,ssr}(current_cookie, accepted_locale): the memo's first value
        fn = m.fn(r"^fn fetch_locale_%s\(" % entry.split("_")[1])
        m.frame_counter += 1
        clos_key = (m.frame_counter, "accepted")
        accepted = ("memoval", sym["best"])
        outs0 = m.call_fn(fn, [opt(sym["has_cookie"], sym["cookie"]), accepted], st0)
        outs = []
        for st1, memo in outs0:
            if isinstance(memo, tuple) and memo[0] == "memoval":
                outs.append((st1, ("val", memo[1])))
                continue
            for st2, v in m.call_closure(st1, memo[1], [opt(z3.BoolVal(False), None)]):
                outs.append((st2, ("val", v)))
        spec = z3.If(sym["has_cookie"], sym["cookie"], sym["best"])
    else:
        raise ValueError(entry)
    res = {"entry": entry, "paths": len(outs), "status": "unsat", "solver_checks": 0, "solver_s": 0.0, "mir_fns": sorted(m.mir_fns_run)}
    if not outs:
        raise Unsupported("no path through %s" % entry)
    for st1, v in outs:
        got = v[1] if (isinstance(v, tuple) and v[0] == "val") else ctx_locale(m, st1, v)
        if not z3.is_expr(got):
            raise Unsupported("%s: result %r" % (entry, got))
        s = z3.Solver()
        s.set("timeout", timeout_ms)
        s.add(st1.pc)
        s.add(got != spec)
        t0 = time.time()
        r = second.check(s, 'C15 path query')
        res["solver_s"] += time.time() - t0
        res["solver_checks"] += 1
        if r == z3.sat:
            mdl = s.model()
            res["status"] = "sat"
            res["model"] = {k: str(mdl.eval(v, model_completion=True)) for k, v in sym.items() if z3.is_expr(v)}
            res["model"]["code_result"] = str(mdl.eval(got, model_completion=True))
            res["model"]["default"] = str(mdl.eval(z3.BitVec("default_locale", 8), model_completion=True))
            res["model"]["property_result"] = str(mdl.eval(spec, model_completion=True))
            break
        if r == z3.unknown:
            res["status"] = "unknown"
            break
        # vacuity twin: the path is feasible and the result can equal the specification
        s2 = z3.Solver()
        s2.add(st1.pc)
        s2.add(got == spec)
        if s2.check() != z3.sat:
            res["status"] = "vacuous"
            break
    res["calls"] = sorted(m.calls_seen)
    res["solver_s"] = round(res["solver_s"], 3)
    return res


# ------------------------------------------------------------------------------------------ native side
CACHE = os.path.join(report.VERIF, ".cache")
CRATE15 = os.path.join(CACHE, "replay15-crate")
TARGET15 = os.path.join(CACHE, "replay15-target")
TEMPLATE15 = os.path.join(report.VERIF, "replay", "template15")
NAMES = ["en", "fr", "de", "es"]
DEFAULT_COOKIE = "i18n_pref_locale"


def rs_opt(s):
    return "None" if s is None else "Some(%s)" % json.dumps(s)


def cookie_value(header, name):
    if header is None or name is None:
        return None
    for part in header.split(";"):
        k, _, v = part.strip().partition("=")
        if k == name:
            return v if v in NAMES else None
    return None


def best_of(accept):
    if accept:
        for e in accept.split(","):
            e = e.split(";")[0]
            if e in NAMES:
                return e
    return "en"


def expected_top(enable, header, accept):
    c = cookie_value(header, DEFAULT_COOKIE) if enable else None
    return c or best_of(accept)


def expected_sub(parent, initial, cname, header, accept):
    return cookie_value(header, cname) or initial or parent or best_of(accept)


def run_native(scenarios):
    """scenarios: list of ("top", enable, header, accept) / ("sub", parent, initial, cname, header, accept) -> list of locale names"""
    import shutil
    os.makedirs(os.path.join(CRATE15, "src"), exist_ok=True)
    shutil.copy(os.path.join(TEMPLATE15, "Cargo.toml.in"), os.path.join(CRATE15, "Cargo.toml"))
    if os.path.exists("/repo/Cargo.lock") and not os.path.exists(os.path.join(CRATE15, "Cargo.lock")):
        shutil.copy("/repo/Cargo.lock", os.path.join(CRATE15, "Cargo.lock"))
    if os.path.isdir(os.path.join(CRATE15, "locales")):
        shutil.rmtree(os.path.join(CRATE15, "locales"))
    shutil.copytree(os.path.join(TEMPLATE15, "locales"), os.path.join(CRATE15, "locales"))
    lines = []
    for i, sc in enumerate(scenarios):
        if sc[0] in ("top", "resolve"):
            lines.append("    scenario_%s(%d, %s, %s, %s);" % (sc[0], i, "true" if sc[1] else "false", rs_opt(sc[2]), rs_opt(sc[3])))
        else:
            lines.append("    scenario_sub(%d, %s, %s, %s, %s, %s);" % (i, rs_opt(sc[1]), rs_opt(sc[2]), rs_opt(sc[3]), rs_opt(sc[4]), rs_opt(sc[5])))
    main = open(os.path.join(TEMPLATE15, "src", "main.rs.in")).read().replace("@BODY@", "\n".join(lines))
    with open(os.path.join(CRATE15, "src", "main.rs"), "w") as f:
        f.write(main)
    env = dict(os.environ, CARGO_NET_OFFLINE="true", CARGO_TARGET_DIR=TARGET15, RUSTFLAGS="--cap-lints warn")
    p = subprocess.run(["cargo", "run", "--quiet"], cwd=CRATE15, env=env, capture_output=True, text=True, timeout=1800)
    if p.returncode != 0:
        raise Unsupported("native C15 crate failed (rc=%d): %s" % (p.returncode, p.stderr[-1500:]))
    out = [None] * len(scenarios)
    for l in p.stdout.split("\n"):
        f = l.split("\t")
        if f[0] == "R":
            out[int(f[1])] = f[2]
    return out


def all_scenarios(tier):
    sc = []
    headers = [None, "i18n_pref_locale=fr", "i18n_pref_locale=xx", "other=fr", "a=1; i18n_pref_locale=de; b=2", "i18n_pref_locale="]
    accepts = [None, "de", "fr;q=0.9,de", "zz,de", "zz", "es,en"]
    for enable in (True, False):
        for h in headers:
            for a in accepts:
                sc.append(("top", enable, h, a))
    for enable in (True, False):
        for h in (None, "i18n_pref_locale=fr", "i18n_pref_locale=en", "i18n_pref_locale=xx"):
            for a in (None, "de", "zz,de", "fr;q=0.9,de"):
                sc.append(("resolve", enable, h, a))
                if h == "i18n_pref_locale=en":
                    sc.append(("top", enable, h, a))     # a cookie that names the default locale is still a preference
    for parent in (None, "de"):
        for initial in (None, "fr"):
            for cname in (None, "sub"):
                for h in (None, "sub=es", "sub=xx", "i18n_pref_locale=es", "sub=es; i18n_pref_locale=fr"):
                    for a in (None, "fr", "zz"):
                        sc.append(("sub", parent, initial, cname, h, a))
    return sc


def scenario_of_model(entry, model):
    """Concrete request for a solver model: distinct 8-bit codes get distinct locale names."""
    order = ["cookie", "init", "parent", "best"]
    names = {}
    pool = ["fr", "de", "es", "en"]
    if "default" in model:
        # the crate's default locale is `en`: the code the solver chose for L::default() gets that name
        names[model["default"]] = "en"
        pool = ["en", "fr", "de", "es"]
    for k in order:
        v = model[k]
        if v not in names:
            if len(names) >= len(pool):
                raise Unsupported("the model needs more distinct locales than the replay crate has")
            names[v] = pool[len(names)]
    nm = {k: names[model[k]] for k in order}
    nm["code_result"] = names.get(model["code_result"])
    nm["property_result"] = names.get(model["property_result"])
    t = lambda k: model[k] == "True"
    if entry in ("top", "resolve", "fetch_csr", "fetch_ssr"):
        enable = t("enable_cookie") if entry in ("top", "resolve") else True
        header = ("i18n_pref_locale=" + nm["cookie"]) if t("has_cookie") else None
        return ("resolve" if entry == "resolve" else "top", enable, header, nm["best"]), nm
    header = ("sub=" + nm["cookie"]) if t("has_cookie") else None
    return ("sub", nm["parent"] if t("has_parent") else None, nm["init"] if t("has_init") else None, "sub" if t("has_name") else None, header, nm["best"]), nm


def run(tier, seed):
    prop = "C15"
    t0 = time.time()
    try:
        mir = mirsmt.dump_mir("leptos_i18n", "leptos_i18n.mir")
    except Unsupported as e:
        print("INCONCLUSIVE property=C15 %s" % e)
        return 2
    runs, inconclusive, sat = [], [], []
    for entry in ("fetch_csr", "fetch_ssr", "top", "resolve", "sub"):
        try:
            r = decide_entry(mir, entry)
        except Unsupported as e:
            inconclusive.append("%s: UNSUPPORTED %s" % (entry, e))
            continue
        runs.append(r)
        if r["status"] == "sat":
            sat.append(r)
        elif r["status"] != "unsat":
            inconclusive.append("%s: %s" % (entry, r["status"]))
    known = report.load_known()
    violations = 0
    replayed = 0
    for r in sat:
        sig = {"engine": "M", "entry": r["entry"]}
        k = report.matches(sig, known, prop)
        if k is not None:
            print("KNOWN-FINDING: property=C15 %s" % k.get("description", k["id"]))
            continue
        # replay the model against the real functions (server side, cookie / header supplied through the ssr getters)
        try:
            sc, nm = scenario_of_model(r["entry"], r["model"])
            real = run_native([sc])[0]
            replayed += 1
        except Exception as e:
            inconclusive.append("%s: model found but native replay failed: %s" % (r["entry"], str(e)[-300:]))
            continue
        expected = expected_top(*sc[1:]) if sc[0] in ("top", "resolve") else expected_sub(*sc[1:])
        path = report.write_replay(prop, "initial_locale_%s" % r["entry"], dict(r, signature=sig, scenario=list(sc), real_result=real, expected_by_property=expected,
                                   how_to_replay="crate %s (cargo run): %s" % (CRATE15, list(sc))))
        if real != expected:
            print("VIOLATION property=C15 replay=%s" % path)
            print("  entry=%s scenario=%s real=%s property=%s" % (r["entry"], list(sc), real, expected))
            violations += 1
        else:
            print("ENCODER-MISMATCH property=C15 the model of %s does not reproduce natively (%s)" % (r["entry"], path))
            inconclusive.append("%s: model did not reproduce natively" % r["entry"])
    # concrete validation of the summaries: the real functions on enumerated requests against the same specification
    native = {"scenarios": 0, "mismatches": 0}
    if not violations:
        try:
            scs = all_scenarios(tier)
            reals = run_native(scs)
            native["scenarios"] = len(scs)
            for sc, real in zip(scs, reals):
                expected = expected_top(*sc[1:]) if sc[0] in ("top", "resolve") else expected_sub(*sc[1:])
                if real != expected:
                    native["mismatches"] += 1
                    if native["mismatches"] <= 3:
                        path = report.write_replay(prop, "native_%s_%d" % (sc[0], native["mismatches"]), {"scenario": list(sc), "real_result": real, "expected_by_property": expected,
                                                   "note": "found by the concrete stage (real functions, ssr), not by the solver", "how_to_replay": "crate %s (cargo run)" % CRATE15})
                        print("VIOLATION property=C15 replay=%s" % path)
                        print("  scenario=%s real=%s property=%s" % (list(sc), real, expected))
                    violations += 1
        except Unsupported as e:
            inconclusive.append("native stage: %s" % str(e)[-600:])
    wall = time.time() - t0
    calls = sorted({c for r in runs for c in r.get("calls", [])})
    so, so_problems = second.verdict()
    for pr in so_problems:
        inconclusive.append("second opinion: " + pr)
    report.write_evidence(prop, tier, seed, "model_checking", {
        "evaluations": sum(r["paths"] for r in runs) or 1, "distinct_nontrivial": max(2, len(runs)),
        "rule": "one symbolic execution per entry point; every MIR path is one evaluation; each path's result is compared with the precedence specification by z3 for all values of the symbolic inputs",
        "samples": [{k: v for k, v in r.items() if k not in ("calls", "mir_fns")} for r in runs[:4]] or [{"note": "none"}],
        "states": sum(r["paths"] for r in runs) or 1, "transitions": sum(r.get("solver_checks", 0) for r in runs) or 1,
        "traces_validated_against_impl": replayed + native["scenarios"], "native_stage": native,
        "runs": runs, "solver": "z3 %s" % z3.get_version_string(), "solver_s": round(sum(r.get("solver_s", 0) for r in runs), 3),
        "functions_encoded": sorted({f for r in runs for f in r.get("mir_fns", [])}),
        "mir_calls_summarised": calls,
        "bounds": "entry points init_i18n_context_with_options (cookie enabled or not), init_i18n_subcontext_with_options (initial locale / cookie name / parent context each present or absent), fetch_locale_csr, fetch_locale_ssr; inputs fully symbolic: cookie holds a locale or not + which, best match of the language list, parent locale, explicit initial locale (8-bit locale codes, compared for equality only). Only the FIRST value of every memo (the initial locale) is decided; later re-evaluations (signals changing), hydration (`lang` attribute of <html>, web_sys) and what leptos-use does to decode the cookie or read the header are outside.",
        "second_opinion": so,
        "inconclusive": inconclusive,
    }, wall, [
        "leptos contract (summaries): Memo::new(f) evaluates f(None) for its first value; Memo/Signal get and get_untracked return the current value; Signal::derive(f) evaluates f; RwSignal::new/set/get are a cell; RenderEffect::new(f) runs f(None) once immediately; Effect::new_isomorphic and on_cleanup do not change the locale cell (the effect only writes the cookie back)",
        "leptos-use contract: use_cookie_with_options::<L, FromToStringCodec> yields Some(l) iff the cookie holds the name of configured locale l (decoding = L::from_str, C13; an invalid value gives None); use_locales_with_options yields the request's language list (header on the server, navigator.languages on the client)",
        "Locale::find_locale(list) is an uninterpreted value `best match` (C12 decides it, including the default when nothing matches)",
        "use_context::<I18nContext<L>>() is the parent context if any; its locale is a free symbolic value",
        "MIR is dumped without the ssr / hydrate features: fetch_locale's cfg! chain is folded to the csr arm; fetch_locale_ssr is executed as a separate entry; fetch_locale_hydrate is outside",
        "native side: the real init_i18n_context_with_options / init_i18n_subcontext_with_options inside a leptos Owner with feature ssr; cookie and Accept-Language headers supplied through the documented ssr getters of leptos-use; a parent context is a top-level context provided with provide_context",
    ], violations)
    print("property=C15 tier=%s entries=%d paths=%d sat=%d inconclusive=%d wall_s=%.1f" % (tier, len(runs), sum(r["paths"] for r in runs), len(sat), len(inconclusive), wall))
    if violations:
        return 1
    for i in inconclusive:
        print("INCONCLUSIVE property=C15 %s" % i)
    if inconclusive or not runs:
        return 2
    return 0


if __name__ == "__main__":
    sys.exit(run(os.environ.get("VERIF_TIER", "quick"), int(os.environ.get("VERIF_SEED", "0"))))
