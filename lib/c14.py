"""C14 (first sentence): `get_locale_from_path` translated from MIR, decided with z3 strings."""
import json
import os
import re
import time

import z3

import hostrun
import mirsmt
import report
from mirsmt import Opt, Struct, Unsupported

LOCALE_SETS = [["en", "fr"], ["en", "en-US", "fr"], ["fr", "fr-CA", "de", "d"]]


class Side:
    def __init__(self):
        self.cons = []
        self.n = 0

    def fresh(self, base):
        self.n += 1
        return z3.String("%s_%d" % (base, self.n))


def trim_start_slash(side, s):
    # memoised on the argument: trimming the same string twice is the same string
    key = s.sexpr()
    memo = side.__dict__.setdefault("memo", {})
    if key in memo:
        return memo[key]
    r = _trim_start_slash(side, s)
    memo[key] = r
    return r


def _trim_start_slash(side, s):
    pre = side.fresh("slashes")
    r = side.fresh("trimmed")
    side.cons += [s == z3.Concat(pre, r), z3.InRe(pre, z3.Star(z3.Re(z3.StringVal("/")))), z3.Not(z3.PrefixOf(z3.StringVal("/"), r))]
    return r


def make_summaries(side, locales, fns):
    def s_trim_start(ex, st, args, callee):
        if not (isinstance(args[1], tuple) and args[1] == ("char", "/")):
            raise Unsupported("trim_start_matches with %r" % (args[1],))
        return trim_start_slash(side, args[0])

    def s_strip_prefix(ex, st, args, callee):
        s, p = args
        return Opt(z3.PrefixOf(p, s), z3.SubString(s, z3.Length(p), z3.Length(s) - z3.Length(p)))

    def s_branch(ex, st, args, callee):
        o = args[0]
        return Opt(o.is_some, o.payload, kind="ControlFlow")

    def s_from_residual(ex, st, args, callee):
        return Opt(z3.BoolVal(False), None)

    def s_get_all(ex, st, args, callee):
        return ("locales", list(locales))

    def s_ident(ex, st, args, callee):
        return args[0]

    def s_as_str(ex, st, args, callee):
        l = args[0]
        if not (isinstance(l, tuple) and l[0] == "loc"):
            raise Unsupported("as_str of %r" % (l,))
        return z3.StringVal(l[1])

    def char_class(name):
        rng = lambda a, b: z3.Range(z3.StringVal(a), z3.StringVal(b))
        if name.endswith("is_alphanumeric") or name.endswith("is_ascii_alphanumeric"):
            return z3.Union(rng("0", "9"), rng("a", "z"), rng("A", "Z"))
        if name.endswith("is_alphabetic") or name.endswith("is_ascii_alphabetic"):
            return z3.Union(rng("a", "z"), rng("A", "Z"))
        if name.endswith("is_numeric") or name.endswith("is_ascii_digit"):
            return rng("0", "9")
        if name.endswith("is_whitespace") or name.endswith("is_ascii_whitespace"):
            return z3.Union(*[z3.Re(z3.StringVal(c)) for c in " \t\n\r"])
        raise Unsupported("character predicate %s" % name)

    def s_starts_with(ex, st, args, callee):
        s, p = args
        if isinstance(p, tuple) and p[0] == "fnitem":
            # ASCII approximation of the char predicate (non-ASCII characters are treated as not in the class)
            anyc = z3.Star(z3.AllChar(z3.ReSort(z3.StringSort())))
            return z3.InRe(s, z3.Concat(char_class(p[1]), anyc))
        if isinstance(p, tuple) and p[0] == "char":
            p = z3.StringVal(p[1])
        return z3.PrefixOf(p, s)

    def s_trim_start_str(ex, st, args, callee):
        # trim_start_matches(&str): remove the pattern repeatedly (unrolled: at most 4 repetitions, stated bound)
        s, p = args
        r = side.fresh("trimmed_by_str")
        k = side.fresh("reps")
        reps = [z3.StringVal("")]
        for _ in range(4):
            reps.append(z3.Concat(reps[-1], p))
        side.cons.append(z3.If(z3.Length(p) == 0, r == s,
                               z3.And(z3.Or([s == z3.Concat(x, r) for x in reps]), z3.Not(z3.PrefixOf(p, r)))))
        return r

    def s_ends_with(ex, st, args, callee):
        s, p = args
        if isinstance(p, tuple) and p[0] == "char":
            p = z3.StringVal(p[1])
        return z3.SuffixOf(p, s)

    def s_is_empty(ex, st, args, callee):
        return z3.Length(args[0]) == 0

    def s_eq(ex, st, args, callee):
        return args[0] == args[1]

    def call_closure(ex, clos, args):
        sig = getattr(clos, "sig", None)
        fn = None
        for f in fns.values():
            if "{closure" in f.header and sig and sig in f.header.split("->")[0]:
                fn = f
        if fn is None:
            cl = [f for f in fns.values() if "{closure" in f.header]
            if len(cl) == 1:
                fn = cl[0]
        if fn is None:
            raise Unsupported("cannot find the closure body")
        paths = ex.run(fn, [clos] + list(args))
        conds = []
        for pc, ret, _ in paths:
            if not z3.is_bool(ret):
                raise Unsupported("closure returned %r" % (ret,))
            conds.append(z3.And(list(pc) + [ret]) if pc else ret)
        return z3.Or(conds) if conds else z3.BoolVal(False)

    def s_find(ex, st, args, callee):
        it, clos = args
        if not (isinstance(it, tuple) and it[0] == "locales"):
            raise Unsupported("find over %r" % (it,))
        conds = [(l, call_closure(ex, clos, [("loc", l)])) for l in it[1]]
        return Opt(z3.Or([c for _, c in conds]), ("first", conds))

    def s_is_some_and(ex, st, args, callee):
        o, clos = args
        inner = call_closure(ex, clos, [o.payload])
        return z3.And(o.is_some, inner)

    WS = [9, 10, 11, 12, 13, 32, 0x85, 0xA0, 0x1680] + list(range(0x2000, 0x200B)) + [0x2028, 0x2029, 0x202F, 0x205F, 0x3000]

    def s_split(ex, st, args, callee):
        s, sep = args
        if not (isinstance(sep, tuple) and sep[0] == "char"):
            raise Unsupported("split with %r" % (sep,))
        return ("split", s, sep[1], 0)

    def s_split_next(ex, st, args, callee):
        it = args[0]
        if not (isinstance(it, tuple) and it[0] == "split") or it[3] != 0:
            raise Unsupported("Split::next on %r" % (it,))
        seg = side.fresh("split_first")
        rest = side.fresh("split_rest")
        sep = z3.StringVal(it[2])
        side.cons += [it[1] == z3.Concat(seg, rest), z3.Not(z3.Contains(seg, sep)), z3.Or(z3.Length(rest) == 0, z3.PrefixOf(sep, rest))]
        return Opt(z3.BoolVal(True), seg)

    def s_from_str(ex, st, args, callee):
        # generated FromStr (decided by C13): Ok(l) iff the trimmed input is l's configured name
        s = args[0]
        t, pre, post = side.fresh("trimmed_ws"), side.fresh("ws_pre"), side.fresh("ws_post")
        ws = z3.Union(*[z3.Re(z3.StringVal(chr(c))) for c in WS])
        anyc = z3.Star(z3.AllChar(z3.ReSort(z3.StringSort())))
        side.cons += [s == z3.Concat(pre, t, post), z3.InRe(pre, z3.Star(ws)), z3.InRe(post, z3.Star(ws)),
                      z3.Not(z3.InRe(t, z3.Concat(ws, anyc))), z3.Not(z3.InRe(t, z3.Concat(anyc, ws)))]
        conds = [(l, t == z3.StringVal(l)) for l in locales]
        return Opt(z3.Or([c for _, c in conds]), ("first", conds))

    def s_result_ok(ex, st, args, callee):
        r = args[0]
        return Opt(r.is_some, r.payload)

    return [
        (r"impl str>::split::<char>$", s_split),
        (r"Split<'_, char> as .*Iterator>::next$", s_split_next),
        (r"<L as FromStr>::from_str$", s_from_str),
        (r"^Result::<L, .*>::ok$", s_result_ok),
        (r"trim_start_matches::<char>$", s_trim_start),
        (r"trim_start_matches::<&str>$", s_trim_start_str),
        (r"strip_prefix::<&str>$", s_strip_prefix),
        (r"as Try>::branch$", s_branch),
        (r"as FromResidual<.*>>::from_residual$", s_from_residual),
        (r"Locale>::get_all$", s_get_all),
        (r"impl \[L\]>::iter$", s_ident),
        (r"Iterator>::copied::<", s_ident),
        (r"Iterator>::find::<", s_find),
        (r"Locale>::as_str$", s_as_str),
        (r"impl str>::starts_with::<", s_starts_with),
        (r"impl str>::ends_with::<", s_ends_with),
        (r"impl str>::is_empty$", s_is_empty),
        (r"Option::<&str>::is_some_and::<", s_is_some_and),
        (r"as PartialEq<.*>>::eq$", s_eq),
    ]


class ClosureAwareExecutor(mirsmt.Executor):
    def operand(self, st, o):
        if o[0] == "const" and re.match(r"^char::methods::<impl char>::\w+$", o[1]):
            return ("fnitem", o[1])
        if o[0] == "const":
            m = re.match(r"^ZeroSized: (\{closure@[^}]*\})$", o[1])
            if m:
                v = Struct([])
                v.sig = m.group(1)
                return v
        return super().operand(st, o)

    def rvalue(self, st, r):
        v = super().rvalue(st, r)
        m = re.match(r"^(\{closure@[^}]*\})", r.strip())
        if m and isinstance(v, Struct):
            v.sig = m.group(1)
        return v


def encode(mir, locales):
    """-> (path results, side constraints, path var, base var, executor)"""
    fns = {}
    main = mirsmt.Fn(mirsmt.extract_fn(mir, r"^fn (routing::)?get_locale_from_path\("))
    fns["main"] = main
    for i, l in enumerate(mir.splitlines()):
        if l.startswith("fn ") and "get_locale_from_path::{closure" in l:
            name = l.split("(")[0]
            fns[name] = mirsmt.Fn(mirsmt.extract_fn(mir, "^" + re.escape(name) + r"\("))
    side = Side()
    ex = ClosureAwareExecutor(fns, make_summaries(side, locales, fns), unroll=4)
    path = z3.String("path")
    base = z3.String("base_path")
    results = ex.run(main, [path, base])
    return results, side, path, base, ex


def spec_segment(side, path, base):
    """First path segment after the base path, written independently of the code."""
    b = trim_start_slash(side, base)
    p = trim_start_slash(side, path)
    r = z3.SubString(p, z3.Length(b), z3.Length(p) - z3.Length(b))
    under_base = z3.And(z3.PrefixOf(b, p),
                        z3.Or(z3.Length(b) == 0, z3.Length(r) == 0, z3.PrefixOf(z3.StringVal("/"), r), z3.SuffixOf(z3.StringVal("/"), b)))
    r2 = trim_start_slash(side, r)
    seg = side.fresh("segment")
    tail = side.fresh("tail")
    side.cons += [r2 == z3.Concat(seg, tail), z3.Not(z3.Contains(seg, z3.StringVal("/"))),
                  z3.Or(z3.Length(tail) == 0, z3.PrefixOf(z3.StringVal("/"), tail))]
    return under_base, seg


def decide(mir, locales, max_path, max_base, timeout_ms):
    results, side, path, base, ex = encode(mir, locales)
    under_base, seg = spec_segment(side, path, base)
    queries = []
    total = 0.0
    for pc, ret, _ in results:
        if not isinstance(ret, Opt):
            raise Unsupported("return value %r" % (ret,))
        if ret.payload is None:
            continue
        if not (isinstance(ret.payload, tuple) and ret.payload[0] == "first"):
            raise Unsupported("payload %r" % (ret.payload,))
        # returned locale = first l whose condition holds
        earlier = []
        for l, c in ret.payload[1]:
            s = z3.Solver()
            s.set("timeout", timeout_ms)
            s.add(side.cons)
            s.add(list(pc))
            s.add(z3.Length(path) <= max_path, z3.Length(base) <= max_base)
            s.add(under_base)
            s.add(z3.And([z3.Not(e) for e in earlier] + [c]))
            s.add(seg != z3.StringVal(l))
            t0 = time.time()
            r = s.check()
            dt = time.time() - t0
            total += dt
            model = None
            if r == z3.sat:
                m = s.model()
                model = {"path": m.eval(path, model_completion=True).as_string(), "base_path": m.eval(base, model_completion=True).as_string(),
                         "returned": l, "first_segment": m.eval(seg, model_completion=True).as_string()}
            queries.append({"locale": l, "status": str(r), "secs": round(dt, 3), "model": model, "reason": s.reason_unknown() if r == z3.unknown else None})
            earlier.append(c)
    # vacuity: some path / locale must be able to return Some at all
    wit = z3.Solver()
    wit.set("timeout", timeout_ms)
    wit.add(side.cons)
    some_paths = []
    for pc, ret, _ in results:
        if isinstance(ret, Opt) and ret.payload is not None:
            some_paths.append(z3.And(list(pc) + [ret.is_some]))
    wit.add(z3.Or(some_paths) if some_paths else z3.BoolVal(False))
    wit.add(under_base)
    witness = str(wit.check())
    return queries, total, witness, ex


NATIVE_MAIN = '''
    let cases: &[(&str, &str)] = &[@CASES@];
    for (p, b) in cases {
        let r: Option<Locale> = leptos_i18n_router::verif_hooks::get_locale_from_path::<Locale>(p, b);
        println!("{}\\t{}", hex(p), hex(&format!("{:?}", r.map(|l| leptos_i18n::Locale::as_str(l)))));
    }
'''


def native(locales, cases):
    """Run the real function (through the verif_hooks forwarder) on concrete (path, base) pairs."""
    import model
    import replay
    proj = model.Project(locales[0], locales, {l: {"k": model.S("x")} for l in locales})
    d = os.path.join(report.VERIF, "work", "c14_native")
    proj.write(d)
    body = NATIVE_MAIN.replace("@CASES@", ", ".join("(%s, %s)" % (replay.rust_str(p), replay.rust_str(b)) for p, b in cases))
    replay.setup_crate(d, body, router=True)
    env = dict(os.environ, CARGO_NET_OFFLINE="true", CARGO_TARGET_DIR=replay.TARGET)
    import subprocess
    try:
        p = subprocess.run(["cargo", "run", "--quiet"], cwd=replay.CRATE, env=env, capture_output=True, text=True, timeout=1800)
    finally:
        replay.unlock()
    if p.returncode != 0:
        raise replay.ReplayError(p.stderr[-2000:])
    out = []
    for l in p.stdout.split("\n"):
        if "\t" in l:
            a, b = l.split("\t")
            out.append((bytes.fromhex(a).decode(), bytes.fromhex(b).decode()))
    return out


def run(tier, seed):
    prop = "C14"
    t0 = time.time()
    try:
        mir = mirsmt.dump_mir("leptos_i18n_router", "router.mir")
    except Unsupported as e:
        print("INCONCLUSIVE property=C14 %s" % e)
        return 2
    max_path, max_base = (12, 4) if tier == "quick" else (24, 8)
    all_q = []
    solver_s = 0.0
    inconclusive = []
    witnesses = []
    calls = set()
    for locales in LOCALE_SETS:
        try:
            qs, secs, witness, ex = decide(mir, locales, max_path, max_base, 60000 if tier == "quick" else 300000)
        except Unsupported as e:
            inconclusive.append("%s: UNSUPPORTED %s" % (locales, e))
            continue
        solver_s += secs
        witnesses.append(witness)
        calls |= set(ex.calls_seen)
        if ex.unwinding_obligations:
            inconclusive.append("%s: unwinding bound reached" % locales)
        for q in qs:
            q["locales"] = locales
            all_q.append(q)
            if q["status"] == "unknown":
                inconclusive.append("%s/%s: solver unknown (%s)" % (locales, q["locale"], q["reason"]))
    sat = [q for q in all_q if q["status"] == "sat"]
    known = report.load_known()
    violations = 0
    replayed = 0
    for q in sat[:1] if sat else []:
        m = q["model"]
        role = "locale_is_strict_prefix_of_first_segment" if m["first_segment"].startswith(m["returned"]) else "other"
        sig = {"engine": "M", "fn": "get_locale_from_path", "witness": role}
        k = report.matches(sig, known, prop)
        if k is not None:
            print("KNOWN-FINDING: property=C14 %s" % k.get("description", k["id"]))
            continue
        try:
            out = native(q["locales"], [(m["path"], m["base_path"])])
            replayed += 1
        except Exception as e:
            inconclusive.append("native replay failed: %s" % e)
            continue
        real = out[0][1] if out else None
        path = report.write_replay(prop, "get_locale_from_path", {"model": m, "locales": q["locales"], "real_result": real, "signature": sig,
                                                                  "how_to_replay": "leptos_i18n_router::verif_hooks::get_locale_from_path::<Locale>(%r, %r) in the replay crate (%s)" % (m["path"], m["base_path"], os.path.join(report.VERIF, ".cache", "replay-crate"))})
        if real == 'Some("%s")' % m["returned"]:
            print("VIOLATION property=C14 replay=%s" % path)
            print("  get_locale_from_path(%r, %r) = %s but the first segment after the base path is %r" % (m["path"], m["base_path"], real, m["first_segment"]))
            violations += 1
        else:
            print("ENCODER-MISMATCH property=C14 model %s, real result %s (%s)" % (m, real, path))
            inconclusive.append("model did not reproduce natively")
    # ---- second sentence, kernel level: match_path_segments / construct_path_segments / PathBuilder from MIR
    import c14b
    rewrite_runs = []
    try:
        for n in ((2, 3) if tier == "quick" else (1, 2, 3, 4, 5)):
            rewrite_runs += c14b.decide(mir, n, 60000 if tier == "quick" else 300000)
    except Unsupported as e:
        inconclusive.append("URL rewriting kernels: UNSUPPORTED %s" % e)
    for r in rewrite_runs:
        if not r["violation"]:
            continue
        v = r["violation"]
        sig = {"engine": "M", "fn": "localize_path", "witness": v["what"].split(",")[0][:40]}
        k = report.matches(sig, known, prop)
        if k is not None:
            print("KNOWN-FINDING: property=C14 %s" % k.get("description", k["id"]))
            continue
        try:
            path_, there, back = c14b.native(r["table"], v["segments"])
            replayed += 1
        except Exception as e:
            inconclusive.append("native replay of the rewriting failed: %s" % str(e)[-300:])
            continue
        rp = report.write_replay(prop, "localize_path_table%d" % r["table"], {"model": v, "table": r["table"], "path": path_, "A_to_B": there, "B_to_A": back, "signature": sig,
                                 "how_to_replay": "leptos_i18n_router::verif_hooks::localize_path(path, &A, &B) then (.., &B, &A) in the replay crate"})
        if back != 'Some("%s")' % path_:
            print("VIOLATION property=C14 replay=%s" % rp)
            print("  switching the locale of %r and back gives %s (via %s): %s" % (path_, back, there, v["what"]))
            violations += 1
            break
        else:
            print("ENCODER-MISMATCH property=C14 rewriting model %s did not reproduce natively (%s -> %s)" % (v, there, back))
            inconclusive.append("rewriting model did not reproduce natively")
    # ---- second sentence, get_new_path itself (base path spellings, old-locale prefix, query string, fragment)
    import c14c
    gnp = {"runs": 0, "unsat": 0, "sat": 0, "queries": 0, "paths": 0, "secs": 0.0, "native_requests": 0, "calls": set(), "samples": []}
    gnp_models = []
    try:
        for nsegs in ((0, 1, 2) if tier == "quick" else (0, 1, 2, 3, 4)):
            for locales, bn, sp, old, new in c14c.cases(tier):
                r = c14c.decide_one(mir, locales, bn, sp, old, new, 60000 if tier == "quick" else 300000, nsegs)
                gnp["runs"] += 1
                gnp["queries"] += r["queries"]
                gnp["paths"] += r["paths"]
                gnp["secs"] += r["secs"]
                gnp["calls"] |= set(r["calls"])
                if len(gnp["samples"]) < 3:
                    gnp["samples"].append({"locales": locales, "base_path": sp, "old": old, "new": new, "segments": nsegs, "status": r["status"], "paths": r["paths"]})
                if r["status"] == "unsat":
                    gnp["unsat"] += 1
                elif r["status"] == "sat":
                    gnp["sat"] += 1
                    gnp_models.append(r["model"])
                else:
                    inconclusive.append("get_new_path %s base %r %s->%s, %d segments: %s %s" % (locales, sp, old, new, nsegs, r["status"], r.get("reason", "")))
        solver_s += gnp["secs"]
    except Unsupported as e:
        inconclusive.append("get_new_path: UNSUPPORTED %s" % e)
    try:
        # native validation of the summaries: concrete requests through the real function, every run (also when the
        # kernel met MIR outside its vocabulary: the concrete stage still speaks)
        conc = []
        for locales, bn, sp, old, new in c14c.cases(tier):
            default = locales[0]
            for rest, q, h in (("", "", ""), ("/about", "a=1&b=2", ""), ("/a-b/c", "", "top"), ("/x/y/z", "q", "f")):
                pre = ("/" + bn if bn else "") + ("/" + old if (old or default) != default else "")
                conc.append({"locales": locales, "pathname": (pre + rest) or "/", "search": q, "hash": h, "base_path": sp, "old": old, "new": new})
        if tier == "quick":
            conc = conc[seed % 5::5]
        by_set = {}
        for m in conc:
            by_set.setdefault(tuple(m["locales"]), []).append(m)
        for ls, ms in by_set.items():
            outs = c14c.native(list(ls), ms)
            gnp["native_requests"] += len(ms)
            for m, real in zip(ms, outs):
                exp = c14c.expected_concrete(m)
                if real != exp:
                    gnp_models.append(dict(m, encoded_result=None, expected=exp))
    except Unsupported as e:
        inconclusive.append("get_new_path: UNSUPPORTED %s" % e)
    except Exception as e:
        inconclusive.append("get_new_path: native stage failed: %s" % str(e)[-300:])
    seen_roles = set()
    for m in gnp_models:
        role = c14c.witness_role(m)
        if role in seen_roles:
            continue
        seen_roles.add(role)
        sig = {"engine": "M", "fn": "get_new_path", "witness": role}
        k = report.matches(sig, known, prop)
        if k is not None:
            print("KNOWN-FINDING: property=C14 %s" % k.get("description", k["id"]))
            continue
        try:
            real = c14c.native(m["locales"], [m])[0]
            replayed += 1
        except Exception as e:
            inconclusive.append("native replay of get_new_path failed: %s" % str(e)[-300:])
            continue
        rp = report.write_replay(prop, "get_new_path_%s" % role, {"model": m, "real_result": real, "signature": sig,
                                 "how_to_replay": "inside an Owner: leptos_i18n_router::verif_hooks::get_new_path::<Locale>(pathname, search, hash, base_path, new, old, vec![]) in the replay crate"})
        if real != m["expected"]:
            print("VIOLATION property=C14 replay=%s" % rp)
            print("  switching %s -> %s at %r (base path %r, query %r, fragment %r) navigates to %r, expected %r" % (m["old"], m["new"], m["pathname"], m["base_path"], m["search"], m["hash"], real, m["expected"]))
            violations += 1
            if violations >= 3:
                break
        else:
            print("ENCODER-MISMATCH property=C14 get_new_path model %s did not reproduce natively (real %r)" % (m, real))
            inconclusive.append("get_new_path model did not reproduce natively")
    wall = time.time() - t0
    report.write_evidence(prop, tier, seed, "model_checking", {
        "evaluations": len(all_q) + gnp["queries"], "distinct_nontrivial": max(2, len({(tuple(q["locales"]), q["locale"]) for q in all_q})),
        "rule": "one query per (locale set, returned locale): exists path, base path (bounded length) such that the function returns that locale although the first segment after the base differs",
        "samples": [{k: v for k, v in q.items()} for q in all_q[:4]] or [{"note": "no query"}],
        "queries": len(all_q) + gnp["queries"], "queries_unsat": sum(1 for q in all_q if q["status"] == "unsat"), "queries_sat": len(sat),
        "vacuity_witnesses": witnesses, "traces_validated_against_impl": replayed,
        "solver": "z3 %s strings" % z3.get_version_string(), "solver_s": round(solver_s, 3),
        "functions_encoded": ["leptos_i18n_router::routing::get_locale_from_path + closure(s), from rustc MIR regenerated this run",
                              "match_path_segments, construct_path_segments, PathBuilder::push (second sentence, kernel level)"],
        "url_rewriting": {"runs": [{k: v for k, v in r.items() if k not in ("mir_fns", "calls")} for r in rewrite_runs],
                          "property": "for 6 route shapes (static / param / optional / splat / unit / empty static, localized statics) and every path of n symbolic non-empty slash-free segments that matches locale A's segments: the path rewritten for locale B has the same number of segments, matches B's segments, and rewriting it back gives the original segments",
                          "mir_calls_summarised": sorted({c for r in rewrite_runs for c in r.get("calls", [])}),
                          "outside": "split of the path string into segments, match_nested / generate_routes"},
        "get_new_path": {"runs": gnp["runs"], "unsat": gnp["unsat"], "sat": gnp["sat"], "queries": gnp["queries"], "paths": gnp["paths"], "solver_s": round(gnp["secs"], 3),
                         "samples": gnp["samples"], "native_requests_compared": gnp["native_requests"], "mir_calls_summarised": sorted(gnp["calls"]),
                         "functions_encoded": ["leptos_i18n_router::routing::get_new_path + its three closures, from rustc MIR regenerated this run"],
                         "property": "for pathname = /<base>[/<old locale>](/<segment>)^n the result is /<base>[/<new locale>](/<segment>)^n ('/' if empty) + '?'+query if non-empty + '#'+fragment if non-empty; the locale prefix is present iff the locale is not the default",
                         "bounds": "locale sets %s; base path spelled '', '/', 'foo', '/foo', 'foo/', '/foo/'; old locale None or any locale, new locale any other; n = 0..%d symbolic non-empty segments of <= 8 characters without '/', '?', '#' (first segment not a locale name when the URL has no locale prefix); query and fragment any strings of <= 4 characters; route table: each lookup present or absent" % (c14c.LOCALE_SETS, 2 if tier == "quick" else 4),
                         "summaries": ["Memo::with_untracked(f) = f(&value)", "Mutex::lock().unwrap(), Arc / guard / Vec / String deref = identity", "HashMap::get = a free optional",
                                       "PathBuilder = the string it will build: push trims '/' on both sides and skips empty pieces, build gives '/' for the empty builder (the MIR of push is decided in the kernel above)",
                                       "localize_path = None without pushing, or Some(()) after pushing the path's segments unchanged (routes without localized segments; localized ones: kernel above)",
                                       "strings are lists of concrete pieces and symbolic non-empty '/'-free segments: trim / strip_prefix / starts_with / is_empty are computed on that structure, strip_prefix forks on 'segment == pattern', 'pattern is a proper prefix', 'no match'; z3 decides the path conditions, result != expected, and that the paths cover the domain"],
                         "outside": "paths with empty segments or a trailing slash, a base path that is a strict prefix of the first segment, update_path_effect / correct_locale_prefix_effect (effects, navigate), match_nested / generate_routes"},
        "mir_calls_summarised": sorted(calls),
        "bounds": "|path| <= %d, |base_path| <= %d characters, any characters; locale sets %s; path assumed to lie under the base path by whole segments. Outside: longer strings." % (max_path, max_base, LOCALE_SETS),
        "inconclusive": inconclusive,
    }, wall, [
        "std summaries: trim_start_matches('/'), strip_prefix, starts_with, ends_with, is_empty, str ==, Option::is_some_and, Try::branch/from_residual, slice iter/copied/find unrolled over the locale list; any other call aborts the translation (inconclusive)",
        "L::get_all() returns the configured locales in order and L::as_str the configured names (decided by C13)",
    ], violations)
    print("property=C14 tier=%s queries=%d unsat=%d sat=%d witnesses=%s inconclusive=%d solver_s=%.2f wall_s=%.1f" % (
        tier, len(all_q), sum(1 for q in all_q if q["status"] == "unsat"), len(sat), witnesses, len(inconclusive), solver_s, wall))
    if violations:
        return 1
    for i in inconclusive:
        print("INCONCLUSIVE property=C14 %s" % i)
    if inconclusive or not all_q or any(w != "sat" for w in witnesses):
        return 2
    return 0
