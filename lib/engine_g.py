"""Engine G: symbolic evaluation of the generated accessors, decided by z3 against the reference denotation."""
import copy
import json
import multiprocessing
import os
import shutil
import time

import hostrun
import model
import smt

VERIF = hostrun.VERIF
WORK = os.path.join(VERIF, "work")

VIEW_FLAVOURS = ["view", "display", "string"]
MACROS = ["td_view", "td_string", "td_display", "t_view", "t_string", "t_display", "tu_view", "tu_string", "tu_display"]


class Case:
    def __init__(self, project, tag, expect="ok", roles=None, note=None, error_kinds=None):
        self.project = project
        self.tag = tag
        self.expect = expect  # "ok" | "error" | "any"
        self.roles = roles or {}
        self.note = note
        self.error_kinds = error_kinds
        self.dir = None


class Finding:
    def __init__(self, prop, kind, case, key=None, flavour=None, detail=None, model=None, role=None, ns=None, ref=None, gen=None, hk=None):
        self.ns = ns
        self.ref = ref
        self.gen = gen
        self.hk = hk
        self.prop = prop
        self.kind = kind
        self.case = case
        self.key = key
        self.flavour = flavour
        self.detail = detail
        self.model = model
        self.role = role

    def signature(self):
        return {"engine": "G", "kind": self.kind, "family": self.case.tag.split("/")[0], "role": self.role or ""}

    def to_json(self):
        return {"property": self.prop, "kind": self.kind, "case": self.case.tag, "dir": self.case.dir, "key": self.key,
                "flavour": self.flavour, "detail": self.detail, "model": self.model, "role": self.role,
                "signature": self.signature()}


def perturb(term):
    """Reference with one literal changed (vacuity twin): the solver must be able to tell it apart."""
    t = copy.deepcopy(term)

    def walk(x):
        if isinstance(x, dict):
            if x.get("t") == "str":
                x["v"] = x["v"] + "†twin"
                return True
            for k in ("a", "b", "v"):
                if k in x and isinstance(x[k], (dict, list)) and walk(x[k]):
                    return True
        elif isinstance(x, list):
            for y in x:
                if walk(y):
                    return True
        return False

    if not walk(t):
        t = {"t": "cat", "a": [t, {"t": "str", "v": "†twin"}]}
    return t


def host_key(hres, ns, path):
    full = [x.replace("-", "_") for x in ([ns] if ns else []) + list(path)]
    for k in hres.get("keys", []):
        if k["path"] == full:
            return k
    return None


def _decide_job(job):
    """Worker: (locales, [(label, gen, ref, want)]) -> [(label, status, model, secs, reason)]"""
    locales, queries, timeout_ms = job
    out = []
    for label, a, b, want in queries:
        try:
            ctx = smt.ctx_for(locales, a, b)
            r = smt.differ(ctx, a, b, timeout_ms=timeout_ms)
            out.append((label, r.status, r.model, r.secs, r.reason))
        except smt.Inconclusive as e:
            out.append((label, "inconclusive", None, 0.0, str(e)))
        except Exception as e:  # z3 exceptions
            out.append((label, "inconclusive", None, 0.0, "%s: %s" % (type(e).__name__, e)))
    return out


class Stats:
    def __init__(self):
        self.projects = 0
        self.projects_ok = 0
        self.projects_rejected_as_expected = 0
        self.keys = 0
        self.queries = 0
        self.unsat = 0
        self.sat = 0
        self.twins = 0
        self.twins_sat = 0
        self.inconclusive = []
        self.undecided = 0
        self.solver_s = 0.0
        self.samples = []
        self.shapes = set()
        self.gen_ms = 0.0
        self.eval_ms = 0.0
        self.eval_errors = []


def shape_of(term):
    """Structure of a term with literals abstracted: counts distinct obligations."""
    if isinstance(term, dict):
        k = term.get("t") or term.get("c") or term.get("n") or term.get("a") or term.get("l")
        if term.get("t") == "str":
            return "s"
        if term.get("t") == "var":
            return "v"
        if term.get("n") == "lit":
            return "#" + term["ty"]
        return "(%s %s)" % (k, " ".join(shape_of(v) for kk, v in sorted(term.items()) if isinstance(v, (dict, list))))
    if isinstance(term, list):
        return "[%s]" % " ".join(shape_of(x) for x in term)
    return ""


def prepare(cases, run_name, cldr=None):
    root = os.path.join(WORK, run_name)
    if os.path.isdir(root):
        shutil.rmtree(root)
    os.makedirs(root)
    for i, c in enumerate(cases):
        c.dir = os.path.join(root, "p%04d" % i)
        c.project.name = "p%04d" % i
        if cldr is not None:
            c.project.plural_oracle = cldr.category
        c.project.write(c.dir)
        with open(os.path.join(c.dir, "case.json"), "w") as f:
            json.dump({"tag": c.tag, "expect": c.expect, "note": c.note}, f)
    return root


def run(prop, cases, flavours_mode="reference", timeout_ms=20000, jobs=16, run_name=None, cldr=None, extra_key_check=None, solver_diff=6):
    """Decide every key of every case.

    flavours_mode:
      "reference": every back-end (view / Display / String / literal accessor) == reference denotation
      "pairwise":  every accessor flavour (incl. the nine t*! expansions) == the view (or literal) flavour
    Returns (stats, findings).
    """
    stats = Stats()
    findings = []
    run_name = run_name or prop
    prepare(cases, run_name, cldr)
    t0 = time.time()
    results = hostrun.batch([c.dir for c in cases], jobs=jobs)
    jobs_list = []
    job_meta = []
    for c in cases:
        stats.projects += 1
        h = results[c.dir]
        stats.gen_ms += h.get("gen_ms", 0.0)
        stats.eval_ms += h.get("eval_ms", 0.0)
        status = h["status"]
        proj = c.project
        if status in ("panic", "crash", "eval_panic"):
            if status == "eval_panic":
                stats.inconclusive.append((c.tag, "evaluator panic: %s" % h.get("panic")))
            elif c.expect == "ok":
                # the project is valid by construction and the real loader panicked on it: no accessor exists
                findings.append(Finding(prop, "loader_panic", c, detail=h.get("panic") or h.get("error"), role=c.roles.get("*")))
            else:
                stats.inconclusive.append((c.tag, "loader %s: %s" % (status, h.get("panic") or h.get("error"))))
            continue
        if status in ("unparsable", "eval_error"):
            stats.inconclusive.append((c.tag, "%s: %s" % (status, h.get("error"))))
            continue
        # reference: do we expect the project to load?
        ref_error = None
        refs = {}
        undecided_keys = {}
        try:
            for ns, path in proj.leaf_keys():
                try:
                    refs[(ns, tuple(path))] = proj.denote_key(ns, path)
                except model.Undecided as u:
                    undecided_keys[(ns, tuple(path))] = str(u)
        except model.ExpectError as e:
            ref_error = e
        if status == "error":
            if c.expect == "error" or ref_error is not None or c.expect == "any":
                stats.projects_rejected_as_expected += 1
                continue
            if undecided_keys:
                stats.undecided += 1
                continue
            findings.append(Finding(prop, "valid_project_rejected", c, detail=h.get("error"), role=c.roles.get("*")))
            continue
        # status ok
        if c.expect == "error" or ref_error is not None:
            if c.expect == "any":
                continue
            findings.append(Finding(prop, "invalid_project_accepted", c,
                                    detail="expected error %s" % (ref_error.kind if ref_error else c.error_kinds), role=c.roles.get("*")))
            continue
        stats.projects_ok += 1
        locales = h["locales"]
        if flavours_mode == "pairwise":
            # scoping: the keys a scope builds (LocaleKeys::from_locale of the nested keys type) vs the accessor chain
            for note in h.get("notes", []):
                if note.startswith("scope-ok"):
                    stats.scope_ok = getattr(stats, "scope_ok", 0) + 1
                elif note.startswith("scope-differs"):
                    pth = note.split()[1].rstrip(":").split(".")
                    findings.append(Finding(prop, "scoped_keys_differ", c, key=pth, detail=note, role="scoping", hk={"path": pth}))
                elif note.startswith("scope-unknown"):
                    stats.inconclusive.append((c.tag, note))
        for (ns, path), ref in refs.items():
            hk = host_key(h, ns, path)
            role = c.roles.get((ns, path)) or c.roles.get("*")
            if hk is None:
                findings.append(Finding(prop, "key_missing", c, key=list(path), detail="no accessor generated", role=role))
                continue
            if hk.get("kind") == "unknown":
                stats.inconclusive.append((c.tag, "%s: %s" % (".".join(path), hk.get("err"))))
                stats.eval_errors.append((c, list(path), ns, hk.get("err")))
                continue
            stats.keys += 1
            if hk["kind"] == "builder":
                avail = {f: hk[f] for f in VIEW_FLAVOURS}
            else:
                avail = {"lit": hk["lit"]}
            queries = []
            if flavours_mode == "reference":
                for f, g in avail.items():
                    queries.append((f, g, ref, "unsat"))
                first = next(iter(avail.values()))
                queries.append(("twin", first, perturb(ref), "sat"))
            else:
                base_name, base = next(iter(avail.items()))
                for f, g in list(avail.items())[1:]:
                    queries.append((f, g, base, "unsat"))
                for mname in MACROS:
                    queries.append((mname, hk["macros"][mname], base, "unsat"))
                queries.append(("twin", base, perturb(base), "sat"))
            if extra_key_check is not None:
                for f in extra_key_check(c, ns, path, hk, ref) or []:
                    f.role = f.role or role
                    findings.append(f)
            jobs_list.append((locales, queries, timeout_ms))
            job_meta.append((c, ns, path, role, ref))
            if len(stats.samples) < 6 and len(stats.samples) < stats.projects:
                stats.samples.append({"case": c.tag, "key": ".".join(path), "kind": hk["kind"],
                                      "reference": _short(ref), "generated_view": _short(next(iter(avail.values())))})
        for (ns, path), why in undecided_keys.items():
            stats.undecided += 1
    # decide in parallel
    if jobs_list:
        with multiprocessing.Pool(min(jobs, max(1, len(jobs_list)))) as pool:
            outs = pool.map(_decide_job, jobs_list, chunksize=max(1, len(jobs_list) // (jobs * 4)))
    else:
        outs = []
    for (c, ns, path, role, ref), (locales, queries, _), out in zip(job_meta, jobs_list, outs):
        stats.shapes.add(shape_of(ref))
        for (label, status, mdl, secs, reason), (_, a, b, want) in zip(out, queries):
            stats.solver_s += secs
            if label == "twin":
                if status == "sat":
                    stats.twins += 1
                    stats.twins_sat += 1
                elif status == "unsat":
                    stats.twins += 1
                    stats.inconclusive.append((c.tag, "%s: vacuity twin was not distinguishable" % ".".join(path)))
                else:
                    stats.twins_unknown = getattr(stats, "twins_unknown", 0) + 1       # solver gave no answer for the twin: no information
                continue
            stats.queries += 1
            if status == "unsat":
                stats.unsat += 1
            elif status == "sat":
                stats.sat += 1
                findings.append(Finding(prop, "text_differs", c, key=list(path), flavour=label, model=mdl, role=role, ns=ns,
                                        ref=b, gen=a, hk=host_key(results[c.dir], ns, path),
                                        detail={"ns": ns, "generated": mdl.get("lhs"), "expected": mdl.get("rhs")}))
            else:
                stats.inconclusive.append((c.tag, "%s/%s: %s %s" % (".".join(path), label, status, reason)))
                if status == "inconclusive":
                    stats.eval_errors.append((c, list(path), ns, "%s: %s" % (label, reason)))
    # second opinion (cvc5, z3 4.8.12) on a sample of the queries: one key per distinct reference shape
    stats.solver_diff = None
    if solver_diff and jobs_list:
        import solverdiff
        seen_shapes = set()
        samples = []
        for (c, ns, path, role, ref), (locales, queries, _) in zip(job_meta, jobs_list):
            sh = shape_of(ref)
            if sh in seen_shapes or len(samples) >= 2 * solver_diff:
                continue
            seen_shapes.add(sh)
            for label, a, b, want in (queries[0], queries[-1]):
                try:
                    ctx = smt.ctx_for(locales, a, b)
                    r = smt.differ(ctx, a, b, timeout_ms=timeout_ms, want_smt2=True)
                except Exception:
                    continue
                if r.status in ("sat", "unsat"):
                    samples.append(("%s %s/%s" % (c.tag, ".".join(path), label), r.smt2, r.status))
        agree, problems, counts = solverdiff.compare(samples, timeout_s=30)
        stats.solver_diff = {"queries_cross_checked": len(samples), "agreeing": agree, "per_solver": counts, "disagreements": problems[:5]}
        for pb in problems:
            stats.inconclusive.append(("solver-diff", pb))
    stats.wall = time.time() - t0
    stats.host_results = results
    return stats, findings


def _short(t, n=400):
    s = json.dumps(t, ensure_ascii=False)
    return s if len(s) <= n else s[:n] + "…"
