"""C11: string tables. G decides every `index_translations::<N, I>` read against the source; the exported tables
(real leptos_i18n_build) are compared with the baked ones; Kani decides JSON validity of the exporter."""
import json
import os
import subprocess

import engine_g
import gcheck
import hostrun
import suites
from engine_g import Case, Finding
from model import Project, S, V, Cp, FK, NUM, NULL, SUB, RANGE, PLURAL

BHOST_DIR = os.path.join(hostrun.VERIF, "bhost")
BHOST_BIN = os.path.join(BHOST_DIR, "target", "debug", "verif-bhost")

NASTY = ['quote " and \\ backslash', "nbsp here", "zero​width‍joiner", "ctl \u0001 \u001f \u007f", "tab\t nl\n cr\r", "astral 😀 𝒳",
         "x</script>y & <!-- z", "  line sep  ", "é ü ñ 日本語", "'single' `tick`", "﻿ bom", "null \u0000 byte"]


def build_bhost():
    lock = os.path.join(BHOST_DIR, "Cargo.lock")
    if os.path.exists("/repo/Cargo.lock") and not os.path.exists(lock):
        import shutil
        shutil.copy("/repo/Cargo.lock", lock)
    p = subprocess.run(["cargo", "build", "--quiet"], cwd=BHOST_DIR, env=hostrun.ENV, capture_output=True, text=True)
    if p.returncode != 0:
        raise hostrun.BuildFailed(p.stderr[-3000:])


def cases_for(tier, seed):
    cases = []
    c1 = suites.c01_cases(tier, seed)
    cases += [c for c in c1 if c.tag.startswith(("c01_literals", "c01_subkeys", "c01_namespaces", "c01_large"))]
    cases += [c for c in c1 if c.tag.startswith("c01_interp")][: (4 if tier == "quick" else 40)]
    cases += suites.c03_cases(tier, seed)[:: (25 if tier == "quick" else 5)]
    # (the null-target + inherits family carries the known C06 finding and adds nothing about tables)
    cases += [c for c in suites.c06_cases(tier, seed) if c.expect == "ok" and not c.tag.startswith(("c06_null_target", "c06_fk_inside_component"))][:: (4 if tier == "quick" else 1)]
    # arbitrary unicode contents, duplicated across keys / subkeys / namespaces / interpolations
    def tree(l, ns=None):
        d = {}
        for i, s in enumerate(NASTY):
            d["n%d" % i] = S(s + " " + l)
            d["i%d" % i] = S(s, V("x"), s + " " + l)          # same literal twice in one value + once elsewhere
        d["grp"] = SUB({"a": S(NASTY[0] + " " + l), "b": SUB({"c": S(NASTY[1]), "d": S(Cp("b", NASTY[2]))})})
        d["r"] = RANGE("u8", [([("exact", 0)], S(NASTY[3])), ("fallback", S(NASTY[3], V("count")))])
        d["p"] = PLURAL("cardinal", {"one": S(NASTY[4]), "other": S(NASTY[4], V("count"))})
        d["fk"] = S(FK((ns + ":" if ns else "") + "n0"), FK((ns + ":" if ns else "") + "n1"))
        return d
    cases.append(Case(Project("en", ["en", "fr"], {l: tree(l) for l in ("en", "fr")}), "c11_unicode/plain", roles={"*": "unicode_tables"}))
    cases.append(Case(Project("en", ["en", "fr"], {ns: {l: tree(l, ns) for l in ("en", "fr")} for ns in ("one", "two")}, namespaces=["one", "two"]),
                      "c11_unicode/namespaces", roles={"*": "unicode_tables_ns"}))
    for c in cases:
        c.tag = "c11:" + c.tag if not c.tag.startswith("c11") else c.tag
    return cases


def _extra(case, ns, path, hk, ref):
    out = []
    for n, i, ln in hk.get("index_uses", []):
        if n != ln or i >= n:
            f = Finding("C11", "generated_code_rejected_by_rustc", case, key=list(path), ns=ns, detail={"N": n, "I": i, "table_len": ln,
                        "what": "index_translations::<N, I> with I >= N or N != table length"})
            out.append(f)
    return out


def reconfirm(f):
    """Run the real build helper again on the project and look at the same table."""
    p = subprocess.run([BHOST_BIN, "tables", f.case.dir], capture_output=True, text=True, env=hostrun.ENV)
    extra = {"how_to_replay": "%s tables %s   (then json.loads of each table's `formatted`)" % (BHOST_BIN, f.case.dir)}
    try:
        j = json.loads(p.stdout)
    except Exception:
        extra["rerun"] = "no answer"
        return f.kind == "export_failed", extra
    if f.kind == "export_failed":
        return j.get("status") != "ok", extra
    bad = []
    for t in j.get("tables", []):
        try:
            json.loads(t["formatted"])
        except Exception as e:
            bad.append({"locale": t["locale"], "namespace": t["namespace"], "error": str(e), "text": t["formatted"][:200]})
    extra["tables_not_json"] = bad
    if f.kind == "export_not_json":
        return bool(bad), extra
    if f.kind in ("file_not_json", "file_differs_from_baked"):
        # the files the helper has just written again: out/<namespace>/<locale>.json must exist and parse
        missing = []
        for t in j.get("tables", []):
            fp = os.path.join(j["out_dir"], *([t["namespace"]] if t["namespace"] else []), t["locale"] + ".json")
            try:
                if json.load(open(fp, encoding="utf-8")) != json.loads(t["formatted"]):
                    missing.append({"file": fp, "problem": "content differs from the table"})
            except Exception as e:
                missing.append({"file": fp, "problem": str(e)})
        extra["files"] = missing[:8]
        return bool(missing), extra
    # differences with the baked tables were computed from the same two real artefacts: deterministic
    return True, extra


def post(cases, stats):
    """Exported tables (real build helper) vs tables baked into the generated code; JSON validity of the export."""
    findings = []
    build_bhost()
    dirs = [c.dir for c in cases if c.expect == "ok"]
    p = subprocess.run([BHOST_BIN], input="\n".join(dirs) + "\n", capture_output=True, text=True, env=hostrun.ENV)
    res = {}
    for l in p.stdout.split("\n"):
        try:
            j = json.loads(l)
            res[j["dir"]] = j
        except Exception:
            pass
    side = {"projects_exported": 0, "tables_compared": 0, "json_parsed": 0, "files_parsed": 0}
    for c in cases:
        if c.expect != "ok":
            continue
        h = stats.host_results.get(c.dir)
        b = res.get(c.dir)
        if not h or h.get("status") != "ok":
            continue
        if not b or b.get("status") != "ok":
            findings.append(Finding("C11", "export_failed", c, detail=(b or {}).get("error") or "no answer from the build helper", role=c.roles.get("*")))
            continue
        side["projects_exported"] += 1
        baked = {}
        for key, t in h["tables"].items():
            loc = t["locale"].split("::")[-1].strip()
            name = t["name"]
            nsname = None
            if "namespaces" in key:
                nsname = name[: -(len(loc) + 1)]
            baked[(nsname, loc)] = t["strings"]
        for t in b["tables"]:
            loc_ident = t["locale"].replace("-", "_")
            key = (t["namespace"].replace("-", "_") if t["namespace"] else None, loc_ident)
            side["tables_compared"] += 1
            try:
                exported = json.loads(t["formatted"])
                side["json_parsed"] += 1
            except Exception as e:
                findings.append(Finding("C11", "export_not_json", c, detail={"table": list(key), "error": str(e), "text": t["formatted"][:300]}, role=c.roles.get("*")))
                continue
            if key not in baked:
                findings.append(Finding("C11", "export_unknown_table", c, detail={"table": list(key), "baked": [list(k) for k in baked]}, role=c.roles.get("*")))
                continue
            if exported != baked[key]:
                findings.append(Finding("C11", "export_differs_from_baked", c, detail={"table": list(key), "exported": exported[:8], "baked": baked[key][:8]}, role=c.roles.get("*")))
            # the file written on disk
            f = os.path.join(b["out_dir"], *( [t["namespace"]] if t["namespace"] else [] ), t["locale"] + ".json")
            try:
                ondisk = json.load(open(f, encoding="utf-8"))
                side["files_parsed"] += 1
                if ondisk != baked[key]:
                    findings.append(Finding("C11", "file_differs_from_baked", c, detail={"file": f}, role=c.roles.get("*")))
            except Exception as e:
                findings.append(Finding("C11", "file_not_json", c, detail={"file": f, "error": str(e)}, role=c.roles.get("*")))
    stats.side = side
    for f in findings:
        f.reconfirm = reconfirm
    return findings


def run(tier, seed):
    import kani_run
    import kcheck
    harnesses = ["json_char_len1", "json_char_len2", "json_char_len3", "json_char_len4", "witness_json_reaches_assert"]
    two = ["json_chars_1_1", "json_chars_1_2", "json_chars_2_1", "json_chars_1_3", "json_chars_3_1", "json_chars_1_4", "json_chars_4_1"]
    # the loop over s.chars() in write_json_string gets its own bound (characters + 1): CBMC cannot see the width of a
    # symbolic character, with the global bound every match arm is explored 9 times; unwinding assertions stay on
    krun = kani_run.KaniRun("buildfmt", harnesses, jobs=5, timeout_s=1800 if tier == "quick" else 3600, unwindset={"17write_json_string": 2})
    rc_g = gcheck.run_property(
        "C11", tier, seed, cases_for(tier, seed), "reference",
        functions_encoded=["generated accessors (every index_translations::<N, I> read resolved through the generated STRINGS tables)",
                           "leptos_i18n_build::TranslationsInfos::get_translations / translations_formatter / write_to_dir (run concretely, compared)"],
        bounds="project families of C01 (literals, duplicates, subkeys, namespaces, > 26 pieces), C03 (defaulted locales), C06 (foreign keys duplicating strings) + 2 projects whose strings are quotes, backslashes, control characters, no-break / zero-width spaces, astral characters, `</script>`; decided by z3: the text read at every index equals the source literal for every locale; concrete side conditions: N == table length, I < N, exported table == baked table, exported text and written file parse as JSON to the same strings.",
        extra_key_check=_extra, post=post)
    kw = dict(functions=["leptos_i18n_build::<impl Display for TranslationsFormatter>::fmt", "write_json_string"],
              assumptions=["decoder in the harness implements RFC 8259 string grammar (escapes \\\" \\\\ \\/ \\b \\f \\n \\r \\t \\uXXXX, no raw control characters)",
                           "per-loop bound for the loop over s.chars() through --unwindset (characters + 1); all other loops unwind 9 / 15; unwinding assertions on"])
    rc_k, cov = kcheck.finish(
        "C11", krun, ["witness_json_reaches_assert"],
        bounds="impl Display for TranslationsFormatter (+ write_json_string) over one string of exactly one character: every Unicode scalar value, one harness per UTF-8 length class (1..4 bytes, string length concrete); output <= 16 bytes", **kw)
    if krun.unwindset is None:
        # the function whose loop gets its own bound is gone from /repo's tree: the two-character harnesses would need
        # ~10 GB each with the global bound; no verdict from them
        print("INCONCLUSIVE property=C11 no loop of `write_json_string` in the goto binary: two-character harnesses not run")
        rc_k2, cov2 = 2, {"harnesses": {}, "harnesses_successful": 0, "solver_s": 0, "violations": [], "bounds": "two-character harnesses not run", "wall_s": 0}
    else:
        krun2 = kani_run.KaniRun("buildfmt", two, jobs=len(two), timeout_s=2400 if tier == "quick" else 5400, unwindset={"17write_json_string": 3})
        rc_k2, cov2 = kcheck.finish(
            "C11", krun2, [],
            bounds="one string of exactly two characters of which at least one is ASCII (UTF-8 lengths 1+1, 1+2, 2+1, 1+3, 3+1, 1+4, 4+1: every such pair)", **kw)
    cov["two_characters"] = cov2
    cov["harnesses"] = dict(cov["harnesses"], **cov2["harnesses"])
    cov["harnesses_successful"] += cov2["harnesses_successful"]
    cov["solver_s"] = round(cov["solver_s"] + cov2["solver_s"], 1)
    cov["violations"] = cov["violations"] + cov2["violations"]
    cov["bounds"] += "; " + cov2["bounds"] + ". Longer strings and several strings per table are outside the solver's claim (covered concretely by the export comparison)."
    rc_k = 1 if 1 in (rc_k, rc_k2) else max(rc_k, rc_k2)
    kcheck.merge_evidence("C11", "kani", cov, len(cov["violations"]))
    return 1 if 1 in (rc_g, rc_k) else max(rc_g, rc_k)
