"""Engine M: a small symbolic executor for rustc MIR text (-Zunpretty=mir) producing z3 terms.

Only what the two target functions need is supported; any other statement, rvalue or call raises
Unsupported, which the checks report as inconclusive (never as a pass, never as a violation)."""
import os
import re
import shutil
import subprocess

import z3

import hostrun

VERIF = hostrun.VERIF
CACHE = os.path.join(VERIF, ".cache")


class Unsupported(Exception):
    pass


# ------------------------------------------------------------------------------------------ MIR dump
def dump_mir(crate, out_name, features=None):
    """MIR of a /repo crate, from a scratch copy of the current working tree (so /repo's mtimes stay untouched)."""
    scratch = "/tmp/verif-mir-%d" % os.getpid()
    if os.path.isdir(scratch):
        shutil.rmtree(scratch)
    os.makedirs(scratch)
    try:
        subprocess.run(["rsync", "-a", "--exclude", "target", "--exclude", ".git", "/repo/", scratch + "/repo/"], check=True)
        cdir = os.path.join(scratch, "repo", crate)
        target = os.path.join(CACHE, "mir-target")
        os.makedirs(target, exist_ok=True)
        env = dict(os.environ, CARGO_NET_OFFLINE="true")
        cmd = ["cargo", "+nightly", "rustc", "--offline", "--lib", "--target-dir", target]
        if features:
            cmd += ["--features", features]
        cmd += ["--", "--cap-lints", "warn", "-Zunpretty=mir", "-C", "debug-assertions=off", "-C", "overflow-checks=on"]
        # the scratch copy has fresh mtimes, but cargo fingerprints by path+mtime of the *scratch* path which changes
        # with the pid: force the crate itself to be rebuilt so that MIR is printed
        p = subprocess.run(cmd, cwd=cdir, env=env, capture_output=True, text=True)
        if p.returncode != 0 or "fn " not in p.stdout:
            raise Unsupported("MIR dump of %s failed: %s" % (crate, p.stderr[-1500:]))
        out = os.path.join(CACHE, out_name)
        with open(out, "w") as f:
            f.write(p.stdout)
        return p.stdout
    finally:
        shutil.rmtree(scratch, ignore_errors=True)


def extract_fn(mir, name_regex):
    """Text of the function whose header matches (first match)."""
    lines = mir.splitlines()
    for i, l in enumerate(lines):
        if l.startswith("fn ") and re.search(name_regex, l):
            j = i
            while j < len(lines) and lines[j] != "}":
                j += 1
            return "\n".join(lines[i:j + 1])
    raise Unsupported("function %s not found in MIR" % name_regex)


# ------------------------------------------------------------------------------------------ parsing
class Fn:
    def __init__(self, text):
        self.text = text
        self.header = text.splitlines()[0]
        self.blocks = {}
        self.params = re.findall(r"(_\d+): ", self.header.split(") ->")[0])
        cur = None
        for l in text.splitlines()[1:]:
            m = re.match(r"^\s*(bb\d+)(?: \(cleanup\))?: \{$", l)
            if m:
                cur = m.group(1)
                self.blocks[cur] = []
                continue
            if cur is not None:
                s = l.strip()
                if s == "}":
                    cur = None
                elif s:
                    self.blocks[cur].append(s)


def split_top(s, sep=","):
    out, depth, cur = [], 0, ""
    i = 0
    in_str = False
    while i < len(s):
        c = s[i]
        if in_str:
            cur += c
            if c == "\\":
                cur += s[i + 1]
                i += 1
            elif c == '"':
                in_str = False
        elif c == '"':
            in_str = True
            cur += c
        elif c in "([{<":
            depth += 1
            cur += c
        elif c in ")]}>" and not (c == ">" and i > 0 and s[i - 1] in "-="):
            depth -= 1
            cur += c
        elif c == sep and depth == 0:
            out.append(cur.strip())
            cur = ""
        else:
            cur += c
        i += 1
    if cur.strip():
        out.append(cur.strip())
    return out


def parse_place(s):
    s = s.strip()
    if s.startswith("(*"):
        inner, rest = parse_place(s[2:])
        if not rest.startswith(")"):
            raise Unsupported("place %r" % s)
        return ("deref", inner), rest[1:]
    if s.startswith("("):
        inner, rest = parse_place(s[1:])
        if rest.startswith(" as "):
            m = re.match(r" as ([A-Za-z0-9_]+)\)", rest)
            if not m:
                raise Unsupported("downcast %r" % s)
            return ("downcast", inner, m.group(1)), rest[m.end():]
        if rest.startswith("."):
            m = re.match(r"\.(\d+): ", rest)
            if not m:
                raise Unsupported("field %r" % s)
            # skip the type up to the matching ')'
            depth = 0
            k = m.end()
            while k < len(rest):
                c = rest[k]
                if c in "(<[":
                    depth += 1
                elif c in ")>]":
                    if c == ")" and depth == 0:
                        break
                    if not (c == ">" and rest[k - 1] == "-"):
                        depth -= 1
                k += 1
            return ("field", inner, int(m.group(1))), rest[k + 1:]
        raise Unsupported("place %r" % s)
    m = re.match(r"_\d+", s)
    if m:
        return ("local", m.group(0)), s[m.end():]
    raise Unsupported("place %r" % s)


def parse_operand(s):
    s = s.strip()
    if s.startswith("no_retag "):
        s = s[len("no_retag "):]
    if s.startswith("copy ") or s.startswith("move "):
        p, rest = parse_place(s[5:])
        if rest.strip():
            raise Unsupported("operand %r" % s)
        return ("place", p)
    if s.startswith("const "):
        return ("const", s[6:].strip())
    if re.match(r"^[A-Za-z_][\w:<> ',]*::\w+(::<[^()]*>)?$", s) or re.match(r"^[A-Za-z_]\w*::<[^()]*>$", s):
        # a function item used as a value (e.g. `char::is_alphanumeric` passed as a pattern)
        return ("const", s)
    raise Unsupported("operand %r" % s)


# ------------------------------------------------------------------------------------------ values
class Opt:
    """Option / ControlFlow-like two variant value: variant names with discriminants 0/1 and one payload."""

    def __init__(self, is_some, payload, kind="Option"):
        self.is_some = is_some
        self.payload = payload
        self.kind = kind


class Ptr:
    def __init__(self, cell):
        self.cell = cell


class Struct:
    def __init__(self, fields):
        self.fields = fields


class State:
    def __init__(self, locals_, cells, pc, visits):
        self.locals = locals_
        self.cells = cells
        self.pc = pc
        self.visits = visits

    def fork(self, extra):
        return State(dict(self.locals), dict(self.cells), self.pc + [extra], dict(self.visits))


class Executor:
    def __init__(self, fns, summaries, consts=None, unroll=8):
        """fns: {key: Fn}; summaries: [(regex, callable(ex, state, args, raw_callee) -> value)]"""
        self.fns = fns
        self.summaries = summaries
        self.consts = consts or {}
        self.unroll = unroll
        self.unwinding_obligations = []
        self.calls_seen = []

    # places
    def read_place(self, st, p):
        k = p[0]
        if k == "local":
            if p[1] not in st.locals:
                raise Unsupported("read of unset local %s" % p[1])
            return st.locals[p[1]]
        if k == "deref":
            v = self.read_place(st, p[1])
            if isinstance(v, Ptr):
                return st.cells[v.cell]
            return v  # shared references to immutable data are the data
        if k == "field":
            v = self.read_place(st, p[1])
            if isinstance(v, Ptr):
                v = st.cells[v.cell]
            if isinstance(v, Struct):
                return v.fields[p[2]]
            if isinstance(v, Opt) and p[2] == 0:
                return v.payload
            raise Unsupported("field %d of %r" % (p[2], type(v).__name__))
        if k == "downcast":
            return self.read_place(st, p[1])
        raise Unsupported("place kind %s" % k)

    def operand(self, st, o):
        if o[0] == "place":
            return self.read_place(st, o[1])
        c = o[1]
        if c in self.consts:
            return self.consts[c]
        m = re.match(r"^'(.)'$", c)
        if m:
            return ("char", m.group(1))
        if c in ("true", "false"):
            return z3.BoolVal(c == "true")
        m = re.match(r'^"(.*)"$', c)
        if m:
            return z3.StringVal(m.group(1))
        if re.search(r"Option::<.*>::None$", c):
            return Opt(z3.BoolVal(False), None)
        raise Unsupported("constant %r" % c)

    def rvalue(self, st, r):
        r = r.strip()
        if r.startswith("&mut ") or r.startswith("&raw ") or r.startswith("&"):
            body = r[5:] if r.startswith("&mut ") else r[1:]
            p, rest = parse_place(body)
            if rest.strip():
                raise Unsupported("ref rvalue %r" % r)
            # a reference to a local holding a pointer-like value is that value; to a by-value local: the value
            if p[0] == "deref":
                v = self.read_place(st, p[1])
                return v if isinstance(v, Ptr) else v
            return self.read_place(st, p)
        m = re.match(r"^Not\((.*)\)$", r)
        if m:
            v = self.operand(st, parse_operand(m.group(1)))
            if z3.is_bool(v):
                return z3.Not(v)
            raise Unsupported("Not of %r" % (v,))
        if r.startswith("discriminant("):
            p, _ = parse_place(r[len("discriminant("):-1])
            v = self.read_place(st, p)
            if not isinstance(v, Opt):
                raise Unsupported("discriminant of %r" % type(v).__name__)
            return ("discr", v)
        m = re.match(r"^\{closure@[^}]*\}(?: \{(.*)\})?$", r)
        if m:
            fields = []
            if m.group(1):
                for part in split_top(m.group(1)):
                    name, val = part.split(":", 1)
                    fields.append(self.operand(st, parse_operand(val)))
            return Struct(fields)
        return self.operand(st, parse_operand(r))

    # running
    def run(self, fn, args, pc=None):
        """-> list of (path condition list, return value, cells)"""
        if len(args) != len(fn.params):
            raise Unsupported("arity of %s" % fn.header)
        st = State(dict(zip(fn.params, args)), {}, list(pc or []), {})
        return self.run_from(fn, st, "bb0")

    def run_state(self, fn, st_locals, cells, pc):
        st = State(dict(st_locals), dict(cells), list(pc), {})
        return self.run_from(fn, st, "bb0")

    def run_from(self, fn, st, bb):
        results = []
        work = [(st, bb)]
        while work:
            st, bb = work.pop()
            st.visits[bb] = st.visits.get(bb, 0) + 1
            if st.visits[bb] > self.unroll:
                self.unwinding_obligations.append(list(st.pc))
                continue
            stmts = fn.blocks.get(bb)
            if stmts is None:
                raise Unsupported("no block %s" % bb)
            nxt = None
            for s in stmts:
                nxt = self.step(fn, st, s)
                if nxt is not None:
                    break
            if nxt is None:
                raise Unsupported("block %s has no terminator" % bb)
            kind = nxt[0]
            if kind == "return":
                results.append((st.pc, st.locals.get("_0"), st.cells))
            elif kind == "goto":
                work.append((st, nxt[1]))
            elif kind == "branch":
                for cond, target in nxt[1]:
                    if z3.is_false(z3.simplify(cond)):
                        continue
                    work.append((st.fork(cond), target))
            elif kind == "multi":
                for st2, target in nxt[1]:
                    work.append((st2, target))
            elif kind == "unreachable":
                self.unwinding_obligations.append(list(st.pc))
        return results

    def step(self, fn, st, s):
        if s in ("return;",):
            return ("return",)
        if s == "unreachable;":
            return ("unreachable",)
        m = re.match(r"^goto -> (bb\d+);$", s)
        if m:
            return ("goto", m.group(1))
        m = re.match(r"^drop\(.*\) -> \[return: (bb\d+).*\];$", s)
        if m:
            return ("goto", m.group(1))
        m = re.match(r"^switchInt\((.*)\) -> \[(.*)\];$", s)
        if m:
            v = self.operand(st, parse_operand(m.group(1)))
            targets = [t.strip() for t in m.group(2).split(",")]
            branches = []
            taken = []
            for t in targets:
                val, bb = [x.strip() for x in t.split(":")]
                if val == "otherwise":
                    branches.append((z3.And([z3.Not(c) for c in taken]) if taken else z3.BoolVal(True), bb))
                else:
                    c = self.switch_cond(v, int(val))
                    taken.append(c)
                    branches.append((c, bb))
            return ("branch", branches)
        m = re.match(r"^(_\d+) = (.*) -> \[return: (bb\d+)(?:, unwind[^\]]*)?\];$", s)
        if m:
            dest, call, ret = m.group(1), m.group(2), m.group(3)
            depth = 0
            k = len(call) - 1
            if call[k] != ")":
                raise Unsupported("call %r" % s)
            while k >= 0:
                if call[k] == ")":
                    depth += 1
                elif call[k] == "(":
                    depth -= 1
                    if depth == 0:
                        break
                k -= 1
            callee = call[:k].strip()
            argtexts = split_top(call[k + 1:-1])
            args = [self.operand(st, parse_operand(a)) for a in argtexts]
            self.calls_seen.append(callee)
            for rx, f in self.summaries:
                if re.search(rx, callee):
                    out = f(self, st, args, callee)
                    if isinstance(out, tuple) and len(out) == 2 and out[0] == "__multi__":
                        # the summary forked the state: [(state, value)]
                        return ("multi", [(self._with(st2, dest, v), ret) for st2, v in out[1]])
                    st.locals[dest] = out
                    return ("goto", ret)
            raise Unsupported("call to %s" % callee)
        m = re.match(r"^(_\d+) = (.*);$", s)
        if m:
            st.locals[m.group(1)] = self.rvalue(st, m.group(2))
            return None
        if s.startswith(("StorageLive", "StorageDead", "nop", "FakeRead", "PlaceMention", "AscribeUserType", "Retag", "Coverage")):
            return None
        raise Unsupported("statement %r" % s)

    def _with(self, st, dest, v):
        st.locals[dest] = v
        return st

    def switch_cond(self, v, val):
        if isinstance(v, tuple) and v[0] == "discr":
            o = v[1]
            # Option: None=0 Some=1 ; ControlFlow: Continue=0 Break=1
            if o.kind == "Option":
                return o.is_some if val == 1 else z3.Not(o.is_some)
            if o.kind == "ControlFlow":
                return o.is_some if val == 0 else z3.Not(o.is_some)
            raise Unsupported("discriminant kind %s" % o.kind)
        if z3.is_bool(v):
            return v if val != 0 else z3.Not(v)
        raise Unsupported("switchInt on %r" % (v,))
