"""Engine K: run Kani harness crates (real /repo code as path dependency) and interpret the verdicts."""
import os
import re
import shutil
import subprocess
import tempfile
import time

import hostrun

VERIF = hostrun.VERIF
KANI_DIR = os.path.join(VERIF, "kani")
CACHE = os.path.join(VERIF, ".cache")


# leptos_i18n has #![deny(warnings)]; Kani's pinned nightly knows lints the repository's toolchain does not
CRATE_ENV = {"jsstr": {"RUSTFLAGS": "--cap-lints warn"}}


LAST_UNWINDSET = {}


class KaniRun:
    def __init__(self, crate, harnesses, jobs, timeout_s, extra_args=(), env=None, unwindset=None):
        self.crate = crate
        self.harnesses = list(harnesses)
        self.timeout_s = timeout_s
        self.t0 = time.time()
        crate_dir = os.path.join(KANI_DIR, crate)
        lock = os.path.join(crate_dir, "Cargo.lock")
        if os.path.exists("/repo/Cargo.lock") and not os.path.exists(lock):
            shutil.copy("/repo/Cargo.lock", lock)
        self.target = os.path.join(CACHE, "kani-target-" + crate)
        os.makedirs(self.target, exist_ok=True)
        cmd = ["cargo", "kani", "--target-dir", self.target, "--output-format", "terse", "-j", str(jobs)]
        cmd += list(extra_args)
        cmd += ["--exact"]
        for h in self.harnesses:
            cmd += ["--harness", "proofs::" + h]
        self.unwindset = None
        env_all = dict(os.environ, CARGO_NET_OFFLINE="true", **(env or CRATE_ENV.get(crate, {})))
        if unwindset:
            # per-loop bounds for loops of the code under test (CBMC loop ids are mangled names: looked up in the
            # freshly generated goto binary); Kani keeps --unwinding-assertions on, a bound that is too small fails
            try:
                loops = find_loops(crate_dir, self.target, self.harnesses[0], env_all)
            except Exception:
                loops = []          # build errors are reported by the run itself
            pairs = []
            for frag, n in unwindset.items():
                hit = [l for l in loops if frag in l]
                # (a function that no longer exists in /repo's tree: the harness' global bound applies, slower, same verdicts)
                pairs += ["%s:%d" % (l, n) for l in hit]
            LAST_UNWINDSET.pop(crate, None)
            if pairs:
                self.unwindset = ",".join(pairs)
                LAST_UNWINDSET[crate] = self.unwindset
                cmd += ["-Z", "unstable-options", "--cbmc-args", "--unwindset", "'%s'" % self.unwindset]
        self.cmd = cmd
        self.log = tempfile.NamedTemporaryFile("w+", suffix=".kani.log", delete=False, dir=CACHE)
        env = env_all
        # memory cap per process tree: 40 GB virtual
        self.p = subprocess.Popen("ulimit -v 41943040; exec " + " ".join(cmd), shell=True, cwd=crate_dir, env=env,
                                  stdout=self.log, stderr=subprocess.STDOUT)

    def finish(self):
        """-> dict(harness -> 'success'|'failed'|'unknown'), summary dict"""
        remaining = max(1, self.timeout_s - (time.time() - self.t0))
        timed_out = False
        try:
            self.p.wait(timeout=remaining)
        except subprocess.TimeoutExpired:
            timed_out = True
            subprocess.run("pkill -P %d; kill %d" % (self.p.pid, self.p.pid), shell=True)
            try:
                self.p.wait(timeout=20)
            except Exception:
                self.p.kill()
            # cbmc grandchildren
            subprocess.run(["pkill", "-f", self.target], check=False)
        self.log.flush()
        self.log.seek(0)
        text = self.log.read()
        self.log.close()
        wall = time.time() - self.t0
        checked = set(re.findall(r"Checking harness (?:proofs::)?([A-Za-z0-9_:]+)\.\.\.", text))
        checked = {c.split("::")[-1] for c in checked}
        failed = {f.split("::")[-1] for f in re.findall(r"Verification failed for - ([A-Za-z0-9_:]+)", text)}
        m = re.search(r"Complete - (\d+) successfully verified harnesses, (\d+) failures, (\d+) total", text)
        res = {}
        complete = m is not None and not timed_out
        for h in self.harnesses:
            if not complete:
                res[h] = "failed" if h in failed else "unknown"
            elif h in failed:
                res[h] = "failed"
            elif h in checked:
                res[h] = "success"
            else:
                res[h] = "unknown"
        if re.search(r"run out of memory|Status: ERROR|CBMC failed", text):
            # an out-of-memory / crashed CBMC run is reported by Kani as a failed harness: it is no verdict
            nfail_checks = len(re.findall(r"Failed Checks:", text))
            if nfail_checks < sum(1 for r in res.values() if r == "failed"):
                for h in list(res):
                    if res[h] == "failed":
                        res[h] = "unknown"
        if "unwinding assertion" in text:
            # an unwinding bound was too small for some harness: that is a property of the harness, not of the code
            for h in list(res):
                if res[h] == "failed" and not h.startswith("witness"):
                    res[h] = "unknown"
        times = [float(x) for x in re.findall(r"Verification Time: ([0-9.]+)s", text)]
        errors = re.findall(r"^(error.*|.*CBMC failed.*|.*Status: ERROR.*|.*out of memory.*)$", text, re.M)[:5]
        summary = {"crate": self.crate, "wall_s": round(wall, 1), "solver_s": round(sum(times), 1), "timed_out": timed_out,
                   "complete_line": m.group(0) if m else None, "errors": errors, "log_tail": text[-1500:] if not complete else "",
                   "cmd": " ".join(self.cmd)}
        try:
            os.unlink(self.log.name)
        except OSError:
            pass
        return res, summary


def find_loops(crate_dir, target, harness, env):
    """Loop ids (`<mangled fn>.<n>`) of the goto binary Kani generates for `harness`."""
    t0 = time.time()
    p = subprocess.run(["cargo", "kani", "--target-dir", target, "--only-codegen"], cwd=crate_dir, env=env, capture_output=True, text=True, timeout=3000)
    if p.returncode != 0:
        raise RuntimeError("cargo kani --only-codegen failed: %s" % p.stderr[-2000:])
    cands = []
    for root, _, files in os.walk(os.path.join(target, "kani")):
        for f in files:
            if f.endswith(harness + ".out") and not f.endswith(".symtab.out"):
                cands.append(os.path.join(root, f))
    cands = [c for c in cands if os.path.getmtime(c) >= t0 - 5] or cands
    if not cands:
        raise RuntimeError("no goto binary for %s" % harness)
    best = max(cands, key=os.path.getmtime)
    q = subprocess.run(["goto-instrument", "--show-loops", best], capture_output=True, text=True, timeout=600)
    return re.findall(r"^Loop (\S+):$", q.stdout, re.M)


def playback(crate, harness, workdir):
    """Reproduce a failed harness natively: Kani's concrete playback injected into a scratch copy of the crate,
    then run as an ordinary test (debug profile). Returns (reproduced: bool|None, path, log)."""
    src = os.path.join(KANI_DIR, crate)
    dst = os.path.join(workdir, "kani-playback-%s-%s" % (crate, harness))
    if os.path.isdir(dst):
        shutil.rmtree(dst)
    shutil.copytree(src, dst, ignore=shutil.ignore_patterns("target"))
    env = dict(os.environ, CARGO_NET_OFFLINE="true", **CRATE_ENV.get(crate, {}))
    tgt = os.path.join(CACHE, "kani-target-" + crate)
    try:
        p = subprocess.run("ulimit -v 25165824; exec cargo kani --target-dir %s --exact --harness proofs::%s -Z concrete-playback --concrete-playback=inplace --output-format terse%s" % (
                               tgt, harness, (" -Z unstable-options --cbmc-args --unwindset '%s'" % LAST_UNWINDSET[crate]) if crate in LAST_UNWINDSET else ""),
                           shell=True, cwd=dst, env=env, capture_output=True, text=True, timeout=900)
    except subprocess.TimeoutExpired:
        subprocess.run("pkill -x cbmc", shell=True)
        return None, dst, "extracting the counterexample (kani concrete playback) did not finish in 900 s"
    log = p.stdout[-3000:] + p.stderr[-2000:]
    q = subprocess.run(["cargo", "kani", "playback", "-Z", "concrete-playback"], cwd=dst, env=env, capture_output=True, text=True, timeout=3600)
    log += "\n--- playback ---\n" + q.stdout[-3000:] + q.stderr[-3000:]
    if "test result: FAILED" in q.stdout or "panicked at" in q.stdout + q.stderr:
        return True, dst, log
    if "test result: ok" in q.stdout:
        return False, dst, log
    return None, dst, log
