"""C20: the ICU data options the build helper derives from the translations.

M (deciding, kernel): `leptos_i18n_build::datakey::find_used_datakey` executed from rustc MIR on symbolic key trees
(see decide_kernel): the set it fills is {Plurals iff some variable anywhere in the tree counts a plural} ∪ {family of
every formatter attached to some variable anywhere in the tree}.

Concrete stage (supporting): generated projects that place one plural / formatter family in one specific place (only in
a non-default locale, only inside nested subkeys, only in the second namespace, only inside a range branch / plural
form / component, only in a foreign-key argument, ...) go through the real build helper
(`TranslationsInfos::parse_at_dir` + the verif_used_options hook = get_icu_keys_inner); options, reported locales and
namespaces are compared with what the project says.
"""
import itertools
import json
import os
import re
import shutil
import subprocess
import sys
import time

import z3

import c11
import hostrun
import mir2
import mirsmt
import report
import second
from engine_g import Case
from mirsmt import Unsupported
from model import (Project, S, V, Cp, FK, NUM, SUB, RANGE, PLURAL)

FAMILY_OPTION = {"plural_cardinal": "Plurals", "plural_ordinal": "Plurals", "number": "FormatNums", "currency": "FormatCurrency",
                 "date": "FormatDateTime", "time": "FormatDateTime", "datetime": "FormatDateTime", "list": "FormatList", "none": None}
FAMILIES = list(FAMILY_OPTION)


def fmt(name):
    return {"name": name, "args": None}


def unit(fam, tag):
    """A value using exactly the ICU family `fam`."""
    if fam == "plural_cardinal":
        return PLURAL("cardinal", {"one": S(tag + " one"), "other": S(tag + " ", V("count"), " others")})
    if fam == "plural_ordinal":
        return PLURAL("ordinal", {"one": S(tag + " 1st"), "two": S(tag + " 2nd"), "other": S(tag + " ", V("count"), "th")})
    if fam == "none":
        return S(tag + " plain ", V("x"))
    return S(tag + " ", V("v", fmt(fam)), " end")


def plain(tag):
    return S(tag + " nothing here")


PLACEMENTS = ["same_variable_plain_in_default", "on_plural_count", "on_range_count", "top_default", "only_other_locale", "nested_subkeys", "second_namespace", "in_range_branch", "in_plural_form",
              "in_component", "fk_argument", "fk_argument_single_var", "via_fk_target", "other_locale_in_subkeys_of_namespace"]


def project_for(fam, placement):
    """-> (Project, expected set of options)"""
    locs = ["en", "fr", "de"]
    exp = {FAMILY_OPTION[fam]} - {None}
    u = lambda l: unit(fam, l)
    if placement == "same_variable_plain_in_default":
        # the default locale (and one more) shows the same variable bare; only a later locale declines / formats it
        if fam == "none":
            return None, None
        var = "count" if fam.startswith("plural") else "v"
        bare = lambda l: S(l + " ", V(var), " item(s)")
        files = {l: {"p": plain(l), "items": (u(l) if l == "de" else bare(l))} for l in locs}
        return Project("en", locs, files), exp
    if placement == "on_plural_count":
        # the only use of the formatter is on the count of a plural
        if fam.startswith("plural") or fam == "none":
            return None, None
        files = {l: {"p": plain(l), "pl": PLURAL("cardinal", {"one": S(l + " ", V("count", fmt(fam)), " one"), "other": S(l + " ", V("count", fmt(fam)), " many")})} for l in locs}
        return Project("en", locs, files), exp | {"Plurals"}
    if placement == "on_range_count":
        if fam not in ("number", "currency"):
            return None, None
        files = {l: {"r": RANGE("u32", [([("exact", 0)], S(l + " none")), ("fallback", S(l + " ", V("count", fmt(fam)), " things"))])} for l in locs}
        return Project("en", locs, files), exp
    if placement == "top_default":
        files = {l: {"k": u(l), "p": plain(l)} for l in locs}
        return Project("en", locs, files), exp
    if placement == "only_other_locale":
        files = {l: {"k": (u(l) if l == "de" else plain(l)), "p": plain(l)} for l in locs}
        return Project("en", locs, files), exp
    if placement == "nested_subkeys":
        files = {l: {"p": plain(l), "grp": SUB({"q": plain(l), "inner": SUB({"deep": SUB({"k": u(l)})})})} for l in locs}
        return Project("en", locs, files), exp
    if placement == "second_namespace":
        nsf = {"alpha": {l: {"p": plain(l)} for l in locs}, "beta": {l: {"p": plain(l), "k": u(l)} for l in locs}}
        return Project("en", locs, nsf, namespaces=["alpha", "beta"]), exp
    if placement == "other_locale_in_subkeys_of_namespace":
        nsf = {"alpha": {l: {"p": plain(l)} for l in locs},
               "beta": {l: {"p": plain(l), "grp": SUB({"k": (u(l) if l == "fr" else plain(l))})} for l in locs}}
        return Project("en", locs, nsf, namespaces=["alpha", "beta"]), exp
    if placement == "in_range_branch":
        if fam.startswith("plural"):
            return None, None            # a plural cannot sit inside a range branch
        inner = unit(fam, "x") if fam != "none" else S("x ", V("y"))
        files = {l: {"r": RANGE("u8", [([("exact", 0)], S(l + " zero")), ("fallback", inner)])} for l in locs}
        return Project("en", locs, files), exp
    if placement == "in_plural_form":
        if fam.startswith("plural"):
            return None, None
        inner = unit(fam, "x") if fam != "none" else S("x ", V("y"))
        files = {l: {"pl": PLURAL("cardinal", {"one": S(l + " one"), "other": inner})} for l in locs}
        return Project("en", locs, files), exp | {"Plurals"}
    if placement == "in_component":
        if fam.startswith("plural"):
            return None, None
        parts = unit(fam, "x")[1] if fam != "none" else S("x ", V("y"))[1]
        files = {l: {"c": S(l + " ", ("comp", "b", parts), " tail")} for l in locs}
        return Project("en", locs, files), exp
    if placement == "fk_argument":
        if fam.startswith("plural") or fam == "none":
            return None, None
        files = {l: {"t": S(l + " hello ", V("name")), "k": S(FK("t", {"name": S("<", V("v", fmt(fam)), ">")}))} for l in locs}
        return Project("en", locs, files), exp
    if placement == "fk_argument_single_var":
        # the argument is exactly one formatted variable (a different parser path from text around a variable)
        if fam.startswith("plural") or fam == "none":
            return None, None
        files = {l: {"t": S(l + " hello ", V("name")), "k": S("to ", FK("t", {"name": S(V("v", fmt(fam)))}))} for l in locs}
        return Project("en", locs, files), exp
    if placement == "via_fk_target":
        files = {l: {"t": u(l), "k": S("see: ", FK("t")), "p": plain(l)} for l in locs}
        return Project("en", locs, files), exp
    raise ValueError(placement)


def concrete_cases(tier, seed):
    cases = []
    for fam in FAMILIES:
        for pl in PLACEMENTS:
            p, exp = project_for(fam, pl)
            if p is None:
                continue
            cases.append((Case(p, "c20_place/%s/%s" % (fam, pl), roles={"*": "placement"}), exp))
    # two families in different places, and nothing at all
    for (fa, pa), (fb, pb) in [(("number", "nested_subkeys"), ("plural_ordinal", "only_other_locale")), (("list", "second_namespace"), ("date", "second_namespace")),
                               (("currency", "in_component"), ("time", "top_default"))]:
        A, ea = project_for(fa, pa)
        B, eb = project_for(fb, pb)
        if A.namespaces or B.namespaces:
            if not (A.namespaces and B.namespaces):
                continue
            files = {ns: {l: dict(A.files[ns][l], **{"z_" + k: v for k, v in B.files[ns][l].items()}) for l in A.locales} for ns in A.namespaces}
            cases.append((Case(Project("en", A.locales, files, namespaces=A.namespaces), "c20_two/%s+%s" % (fa, fb), roles={"*": "two_families"}), ea | eb))
        else:
            files = {l: dict(A.files[l], **{"z_" + k: v for k, v in B.files[l].items()}) for l in A.locales}
            cases.append((Case(Project("en", A.locales, files), "c20_two/%s+%s" % (fa, fb), roles={"*": "two_families"}), ea | eb))
    for first, second in (("number", "list"), ("plural_cardinal", "currency"), ("date", "plural_ordinal")):
        for nested_key, top_key in (("zz_grp", "a_top"), ("a_grp", "zz_top")):
            files = {l: {top_key: unit(first, l), nested_key: SUB({"q": plain(l), "deep": SUB({"k": unit(second, l)})})} for l in ("en", "fr")}
            exp = ({FAMILY_OPTION[first]} | {FAMILY_OPTION[second]}) - {None}
            cases.append((Case(Project("en", ["en", "fr"], files), "c20_two/%s_top_%s_nested_%s" % (first, second, nested_key), roles={"*": "two_families"}), exp))
    # all five option families in one project, each first met on a different key, in several key orders; the last one
    # nested in subkeys of the non-default locale only
    five = ["plural_cardinal", "number", "date", "list", "currency"]
    for r in range(5):
        order = five[r:] + five[:r]
        files = {l: {} for l in ("en", "fr")}
        for i, fam in enumerate(order[:4]):
            for l in ("en", "fr"):
                files[l]["k%d_%s" % (i, fam)] = unit(fam, l)
        for l in ("en", "fr"):
            files[l]["z_grp"] = SUB({"q": plain(l), "deep": SUB({"k": (unit(order[4], l) if l == "fr" else plain(l))})})
        cases.append((Case(Project("en", ["en", "fr"], files), "c20_two/all_five_%d" % r, roles={"*": "two_families"}), {FAMILY_OPTION[f] for f in five}))
    if tier == "quick":
        # every family and every placement at least once, rotating with the seed
        keep = []
        for i, (c, e) in enumerate(cases):
            if c.tag.startswith("c20_two") or (i + seed) % 3 == 0 or "other_locale" in c.tag or "fk" in c.tag or "same_variable" in c.tag or "_count" in c.tag:
                keep.append((c, e))
        cases = keep
    return cases


def run_bhost_options(dirs):
    c11.build_bhost()
    p = subprocess.run([c11.BHOST_BIN, "options"], input="\n".join(dirs) + "\n", capture_output=True, text=True, env=hostrun.ENV)
    res = {}
    for l in p.stdout.split("\n"):
        try:
            j = json.loads(l)
            res[j["dir"]] = j
        except Exception:
            pass
    return res


def concrete_stage(tier, seed):
    cases = concrete_cases(tier, seed)
    work = os.path.join(hostrun.VERIF, "work", "C20")
    if os.path.isdir(work):
        shutil.rmtree(work)
    for c, _ in cases:
        c.dir = os.path.join(work, c.tag.replace("/", "_").replace("+", "_"))
        c.project.write(c.dir)
    res = run_bhost_options([c.dir for c, _ in cases])
    bad, inconclusive = [], []
    for c, exp in cases:
        r = res.get(c.dir)
        if not r or r.get("status") != "ok":
            inconclusive.append("%s: build helper %s %s" % (c.tag, (r or {}).get("status"), str((r or {}).get("error"))[:200]))
            continue
        proj = c.project
        got = set(r["options"])
        problems = []
        if got != exp:
            problems.append({"options": sorted(got), "expected_options": sorted(exp)})
        if sorted(set(r["locales"])) != sorted(proj.locale_order()) or sorted(set(r["langids"])) != sorted(proj.locale_order()):
            problems.append({"locales": r["locales"], "langids": r["langids"], "configured": list(proj.locale_order())})
        if (r["namespaces"] or None) != (list(proj.namespaces) if proj.namespaces else None):
            problems.append({"namespaces": r["namespaces"], "configured": proj.namespaces})
        if problems:
            bad.append({"case": c.tag, "project_dir": c.dir, "problems": problems})
    return len(cases), bad, inconclusive


# ------------------------------------------------------------------------------------------ the kernel from MIR
D8 = z3.BitVecSort(8)
FORMATTER_OPTION = {0: None, 1: "FormatNums", 2: "FormatDateTime", 3: "FormatDateTime", 4: "FormatDateTime", 5: "FormatList", 6: "FormatCurrency"}
FORMATTER_NAMES = ["None", "Number", "Date", "Time", "DateTime", "List", "Currency"]
ALL_OPTIONS = ["Plurals", "FormatDateTime", "FormatList", "FormatNums", "FormatCurrency"]


class M20(mir2.Machine):
    def rvalue(self, st, frame, r, fn=None, stmt=None):
        m = re.match(r"^datakey::Options::(\w+)$", r.strip())
        if m:
            return ("option", m.group(1))
        return super().rvalue(st, frame, r, fn, stmt)


def sym_tree(shape, prefix="t"):
    """shape: list of entries; an entry is ("value", [n_formatters per variable]) or ("subkeys", shape).
    -> (BuildersKeysInner value, slots) ; slots collect the symbolic discriminants with the condition under which
    the generic walk of the statement reaches them."""
    values, slots = [], []
    for i, e in enumerate(shape):
        name = "%s_%d" % (prefix, i)
        if e[0] == "subkeys":
            child, cs = sym_tree(e[1], name)
            values.append(("enum", 1, (("locales",), child)))
            slots += cs
        else:
            kind = z3.Const(name + "_interpol_or_lit", D8)          # 0 = Interpol, 1 = Lit
            vars_ = []
            for vi, nf in enumerate(e[1]):
                has_rc = z3.Bool("%s_v%d_counts" % (name, vi))
                rc = z3.Const("%s_v%d_range_or_plural" % (name, vi), D8)      # 0 = Range, 1 = Plural
                fs = [z3.Const("%s_v%d_formatter_%d" % (name, vi, k), D8) for k in range(nf)]
                vars_.append(("tuple", (("key",), ("struct", (("fset", tuple(("symenum", f, ()) for f in fs)), ("opt", has_rc, ("symenum", rc, ())))))))
                slots.append({"reached": kind == 0, "plural": z3.And(has_rc, rc == 1), "formatters": fs,
                              "domain": [z3.ULE(kind, 1), z3.ULE(rc, 1)] + [z3.ULE(f, 6) for f in fs]})
            if not e[1]:
                slots.append({"reached": kind == 0, "plural": z3.BoolVal(False), "formatters": [], "domain": [z3.ULE(kind, 1)]})
            values.append(("enum", 0, (("symenum", kind, (("vars", tuple(vars_)),)), ("defaults",))))
    return ("struct", (("map", tuple(values)),)), slots


def decide_kernel(mir, shape, timeout_ms=30000, namespaces=False):
    """shape: a tree shape, or (namespaces=True) a list of tree shapes, one per namespace, walked through
    TranslationsInfos::get_icu_keys_inner."""
    def ret(st, v):
        return [(st, v)]

    def write_ptr(m, st, p, v):
        cur = m.mem_get(st, p[1])
        st.mem[p[1]] = mir2.set_path(cur, p[2], v) if p[2] else v

    def s_values(m, st, args, callee):
        v = m.deref_all(st, args[0])
        if v[0] != "map":
            raise Unsupported("values() of %r" % (v[0],))
        return ret(st, ("iter", tuple(v[1]), 0))

    def s_ident(m, st, args, callee):
        return ret(st, args[0])

    def s_next(m, st, args, callee):
        p = args[0]
        it = m.deref_all(st, p)
        if it[0] != "iter":
            raise Unsupported("next on %r" % (it[0],))
        if it[2] >= len(it[1]):
            return ret(st, ("opt", z3.BoolVal(False), None))
        write_ptr(m, st, p, ("iter", it[1], it[2] + 1))
        return ret(st, ("opt", z3.BoolVal(True), it[1][it[2]]))

    def s_iter_vars(m, st, args, callee):
        v = m.deref_all(st, args[0])
        if v[0] != "vars":
            raise Unsupported("iter_vars of %r" % (v[0],))
        return ret(st, ("iter", tuple(v[1]), 0))

    def s_set_iter(m, st, args, callee):
        v = m.deref_all(st, args[0])
        if v[0] != "fset":
            raise Unsupported("iteration over %r" % (v[0],))
        return ret(st, ("iter", tuple(v[1]), 0))

    def s_insert(m, st, args, callee):
        p, o = args
        cur = m.deref_all(st, p)
        if cur[0] != "hashset" or o[0] != "option":
            raise Unsupported("insert %r into %r" % (o, cur[0]))
        write_ptr(m, st, p, ("hashset", cur[1] | {o[1]}))
        return ret(st, z3.BoolVal(o[1] not in cur[1]))

    def s_set_query(m, st, args, callee):
        cur = m.deref_all(st, args[0])
        if cur[0] != "hashset":
            raise Unsupported("HashSet query on %r" % (cur[0],))
        name = callee.split("::")[-1]
        if name == "is_empty":
            return ret(st, z3.BoolVal(len(cur[1]) == 0))
        if name == "len":
            return ret(st, z3.BitVecVal(len(cur[1]), 64))
        if name.startswith("contains"):
            o = m.deref_all(st, args[1])
            return ret(st, z3.BoolVal(o[1] in cur[1]))
        raise Unsupported("HashSet::%s" % name)

    def s_rec(m, st, args, callee):
        return m.call_fn(m.fn(r"^fn find_used_datakey\("), list(args), st)

    summaries = [
        (r"^BTreeMap::<leptos_i18n_parser::utils::Key, (LocaleValue|BuildersKeysInner)>::values$", s_values),
        (r"as IntoIterator>::into_iter$", lambda m, st, args, callee: s_set_iter(m, st, args, callee) if "BTreeSet" in callee else s_ident(m, st, args, callee)),
        (r"as Iterator>::next$", s_next),
        (r"^InterpolationKeys::iter_vars$", s_iter_vars),
        (r"^HashSet::<datakey::Options>::insert$", s_insert),
        (r"^HashSet::<datakey::Options>::(is_empty|len|contains(::<.*>)?)$", s_set_query),
        (r"^find_used_datakey$", s_rec),
    ]
    m = M20(mir, summaries, unroll=16, max_paths=20000)
    st = mir2.St()
    if namespaces:
        trees, slots = [], []
        for ni, sh in enumerate(shape):
            t, sl = sym_tree(sh, "ns%d" % ni)
            trees.append(t)
            slots += sl
        infos = ("struct", (("enum", 0, (("namespace list",), ("map", tuple(trees)))), ("paths",)))
    else:
        tree, slots = sym_tree(shape)
        infos = ("struct", (("enum", 1, (("locale list",), tree)), ("paths",)))
    m.frame_counter += 1
    tk = (m.frame_counter, "infos")
    st.mem[tk] = infos
    m.frame_counter += 1
    sk = (m.frame_counter, "used")
    st.mem[sk] = ("hashset", frozenset())
    for sl in slots:
        for c in sl["domain"]:
            st.pc.append(c)
    outs = m.call_fn(m.fn(r"::get_icu_keys_inner\(_1: &TranslationsInfos"), [("ptr", tk, ()), ("ptr", sk, ())], st)
    res = {"shape": json.dumps(shape), "namespaces": bool(namespaces), "paths": len(outs), "status": "unsat", "solver_checks": 0, "solver_s": 0.0, "slots": len(slots)}
    if not outs:
        raise Unsupported("no path")
    expected = {o: [] for o in ALL_OPTIONS}
    for sl in slots:
        expected["Plurals"].append(z3.And(sl["reached"], sl["plural"]))
        for f in sl["formatters"]:
            for code, opt in FORMATTER_OPTION.items():
                if opt:
                    expected[opt].append(z3.And(sl["reached"], f == code))
    reached = set()
    for st1, _ in outs:
        got = st1.mem[sk][1]
        reached |= set(got)
        claim = z3.And([(z3.Or(expected[o]) if expected[o] else z3.BoolVal(False)) == z3.BoolVal(o in got) for o in ALL_OPTIONS])
        sol = z3.Solver()
        sol.set("timeout", timeout_ms)
        sol.add(st1.pc)
        sol.add(z3.Not(claim))
        t0 = time.time()
        r = second.check(sol, 'C20 path query')
        res["solver_s"] += time.time() - t0
        res["solver_checks"] += 1
        if r == z3.sat:
            mdl = sol.model()
            res["status"] = "sat"
            res["model"] = {"assignment": {str(d): mdl[d].as_long() if hasattr(mdl[d], "as_long") else str(mdl[d]) for d in mdl.decls()}, "options_by_code": sorted(got)}
            break
        if r == z3.unknown:
            res["status"] = "unknown"
            break
    if res["status"] == "unsat":
        # the paths cover every tree of this shape
        sol = z3.Solver()
        for sl in slots:
            sol.add(sl["domain"])
        sol.add(z3.Not(z3.Or([z3.And(st1.pc) if st1.pc else z3.BoolVal(True) for st1, _ in outs])))
        res["solver_checks"] += 1
        if second.check(sol, 'C20 coverage query', True) != z3.unsat:
            res["status"] = "sat"
            res["model"] = {"note": "some tree of this shape reaches no return"}
    if m.unwinding:
        res["status"] = "unknown"
    res["options_reached_on_some_path"] = sorted(reached)
    res["mir_fns"] = sorted(m.mir_fns_run)
    res["calls"] = sorted(m.calls_seen)
    res["solver_s"] = round(res["solver_s"], 3)
    return res


CODE_FMT = {1: "number", 2: "date", 3: "time", 4: "datetime", 5: "list", 6: "currency"}


def project_from_model(shape, namespaces, assignment):
    """A translation project whose key tree has the content of a kernel counterexample -> (Project, expected options)."""
    expected = set()

    def val(name, default=0):
        v = assignment.get(name, default)
        return (v in (True, "True")) if isinstance(default, bool) else int(v)

    def occ(var, codes):
        out = []
        for c in codes or [0]:
            out += [" ", V(var, fmt(CODE_FMT[c])) if c else V(var)]
        return out

    def tree(sh, prefix):
        d = {}
        for i, e in enumerate(sh):
            name = "%s_%d" % (prefix, i)
            key = "k%d" % i
            if e[0] == "subkeys":
                sub = tree(e[1], name)
                d[key] = SUB(sub if sub else {"empty_group_filler": S("x")})
                continue
            if val(name + "_interpol_or_lit") == 1:
                d[key] = S("literal " + name)
                continue
            vars_ = []
            for vi, nf in enumerate(e[1]):
                counts = val("%s_v%d_counts" % (name, vi), False)
                rp = val("%s_v%d_range_or_plural" % (name, vi))
                codes = [val("%s_v%d_formatter_%d" % (name, vi, k)) for k in range(nf)]
                vars_.append((vi, counts and rp == 1, counts and rp == 0, codes))
                for c in codes:
                    if c:
                        expected.add(FORMATTER_OPTION[c])
            plural = next((v for v in vars_ if v[1]), None)
            ranged = next((v for v in vars_ if v[2]), None) if plural is None else None
            parts = ["text " + name]
            for vi, is_pl, is_rg, codes in vars_:
                var = "count" if ((plural and vi == plural[0]) or (ranged and vi == ranged[0])) else "v%d" % vi
                parts += occ(var, codes)
            if plural:
                expected.add("Plurals")
                d[key] = PLURAL("cardinal", {"one": S(*(parts + [" one"])), "other": S(*(parts + [" other"]))})
            elif ranged:
                d[key] = RANGE("u32", [([("exact", 0)], S("none " + name)), ("fallback", S(*parts))])
            else:
                d[key] = S(*parts) if vars_ else S("text " + name + " ", V("plain_var"))
        return d

    locs = ["en", "fr"]
    if namespaces:
        names = ["ns%d" % i for i in range(len(shape))]
        files = {}
        for ni, sh in enumerate(shape):
            t = tree(sh, "ns%d" % ni)
            files[names[ni]] = {l: (t if t else {"filler": S("x")}) for l in locs}
        return Project("en", locs, files, namespaces=names), expected
    t = tree(shape, "t")
    return Project("en", locs, {l: (t if t else {"filler": S("x")}) for l in locs}), expected


def replay_kernel(r):
    shape = json.loads(r["shape"])

    def tup(x):
        return [tuple([e[0], tup(e[1]) if e[0] == "subkeys" else e[1]]) for e in x]
    shape_t = [tup(x) for x in shape] if r["namespaces"] else tup(shape)
    proj, exp = project_from_model(shape_t, r["namespaces"], r["model"]["assignment"])
    d = os.path.join(hostrun.VERIF, "work", "C20", "kernel_model")
    if os.path.isdir(d):
        shutil.rmtree(d)
    proj.write(d)
    res = run_bhost_options([d]).get(d)
    if not res or res.get("status") != "ok":
        return None, {"dir": d, "helper": res}
    return set(res["options"]) != exp, {"dir": d, "options": res["options"], "expected_options": sorted(exp)}


NS_SHAPES_QUICK = [
    [[("value", [0])], [("value", [1])]],
    [[("subkeys", [("value", [1])])], [("value", [])], [("value", [1])]],
]
SHAPES_QUICK = [
    [("value", [1])],
    [("value", [2])],
    [("value", [0, 1])],
    [("value", [1]), ("value", [1])],
    [("subkeys", [("value", [1])]), ("value", [0])],
    [("value", []), ("subkeys", [("subkeys", [("value", [1, 0])])])],
    [("subkeys", []), ("value", [1])],
    [("value", [1]), ("subkeys", [("value", [1])])],
]
SHAPES_THOROUGH = SHAPES_QUICK + [
    [("value", [1, 1]), ("subkeys", [("value", [1])])],
    [("subkeys", [("value", [1]), ("subkeys", [("value", [1])])]), ("value", [1])],
    [("value", [3])],
]


def run(tier, seed):
    prop = "C20"
    t0 = time.time()
    runs, sat, kinc = [], [], []
    try:
        mir = mirsmt.dump_mir("leptos_i18n_build", "build.mir")
        jobs = [(sh, False) for sh in (SHAPES_QUICK if tier == "quick" else SHAPES_THOROUGH)] + [(sh, True) for sh in NS_SHAPES_QUICK]
        for sh, ns in jobs:
            try:
                r = decide_kernel(mir, sh, namespaces=ns)
            except Unsupported as e:
                kinc.append("kernel %s: UNSUPPORTED %s" % (json.dumps(sh), e))
                continue
            runs.append(r)
            if r["status"] == "sat":
                sat.append(r)
            elif r["status"] != "unsat":
                kinc.append("kernel %s: %s" % (r["shape"], r["status"]))
    except Unsupported as e:
        kinc.append("MIR of leptos_i18n_build: %s" % e)
    n, bad, inconclusive = concrete_stage(tier, seed)
    inconclusive = kinc + inconclusive
    known = report.load_known()
    violations = 0
    confirmed_kernel = 0
    for r in sat[:3]:
        # a kernel counterexample becomes a VIOLATION when the real helper shows it on a project with that content
        try:
            ok, info = replay_kernel(r) if "assignment" in r.get("model", {}) else (None, "no tree content in the model")
        except Exception as e:
            ok, info = None, "replay failed: %s" % str(e)[-300:]
        path = report.write_replay(prop, "kernel_%d" % (abs(hash(r["shape"])) % 100000), dict(r, native=info, how_to_replay="echo <dir> | bhost/target/debug/verif-bhost options"))
        if ok:
            print("VIOLATION property=C20 replay=%s" % path)
            print("  find_used_datakey on a tree of shape %s: %s" % (r["shape"], json.dumps(info)[:200]))
            violations_k = True
            confirmed_kernel += 1
        elif not bad:
            print("UNCONFIRMED property=C20 find_used_datakey differs from the statement on a symbolic tree, the project built from the model does not show it (%s)" % path)
    if sat and not confirmed_kernel and not bad:
        inconclusive.append("kernel counterexample not reproduced natively")
    violations += confirmed_kernel
    for b in bad:
        sig = {"engine": "N", "case": b["case"]}
        k = report.matches(sig, known, prop)
        if k is not None:
            print("KNOWN-FINDING: property=C20 %s" % k.get("description", k["id"]))
            continue
        violations += 1
        if violations <= 3:
            path = report.write_replay(prop, b["case"].replace("/", "_").replace("+", "_"), dict(b, signature=sig, how_to_replay="echo <project_dir> | bhost/target/debug/verif-bhost options"))
            print("VIOLATION property=C20 replay=%s" % path)
            print("  %s %s" % (b["case"], json.dumps(b["problems"])[:300]))
    wall = time.time() - t0
    so, so_problems = second.verdict()
    for pr in so_problems:
        inconclusive.append("second opinion: " + pr)
    report.write_evidence(prop, tier, seed, "model_checking", {
        "evaluations": sum(r["paths"] for r in runs) or 1, "distinct_nontrivial": max(2, len(runs)),
        "rule": "one symbolic execution of get_icu_keys_inner -> find_used_datakey per tree shape; every MIR path is one evaluation; per path z3 checks, for each of the five options, membership in the resulting set against the statement, and finally that the paths cover every tree of the shape",
        "samples": [{k: v for k, v in r.items() if k not in ("calls", "mir_fns")} for r in runs[:3]] or [{"note": "none"}],
        "states": sum(r["paths"] for r in runs) or 1, "transitions": sum(r["solver_checks"] for r in runs) or 1,
        "traces_validated_against_impl": n,
        "kernel_runs": [{k: v for k, v in r.items() if k not in ("calls", "mir_fns")} for r in runs],
        "solver": "z3 %s" % z3.get_version_string(), "solver_s": round(sum(r["solver_s"] for r in runs), 3),
        "functions_encoded": sorted({f for r in runs for f in r.get("mir_fns", [])}),
        "mir_calls_summarised": sorted({c for r in runs for c in r.get("calls", [])}),
        "concrete_stage": {"projects": n, "mismatches": len(bad)},
        "bounds": "tree shapes: up to 2 levels of subkey groups, up to 3 entries per level, up to 2 variables per value, up to 2 (thorough 3) formatters per variable, 2 or 3 namespaces; symbolic per slot: value is a literal or an interpolation, the variable counts nothing / a range / a plural, each formatter is any of the 7 kinds. Outside the solver: how the parser fills that tree (merging locales, foreign keys, namespaces) — the concrete stage places each family in 10 specific places and runs the real helper.",
        "second_opinion": so,
        "inconclusive": inconclusive,
    }, wall, [
        "BTreeMap::values / BTreeSet iteration / InterpolationKeys::iter_vars yield the elements of the symbolic tree in order; HashSet::insert adds the option",
        "enum discriminants as declared in the MIR (LocaleValue: Value 0, Subkeys 1; InterpolOrLit: Interpol 0, Lit 1; RangeOrPlural: Range 0, Plural 1; Formatter: None, Number, Date, Time, DateTime, List, Currency = 0..6)",
        "concrete stage: TranslationsInfos::parse_at_dir + verif_used_options (= get_icu_keys_inner), get_locales, get_locales_langids, get_namespaces on generated projects; expectation from the abstract project",
    ], violations)
    print("property=C20 tier=%s kernel_runs=%d paths=%d sat=%d projects=%d mismatches=%d inconclusive=%d wall_s=%.1f" % (tier, len(runs), sum(r["paths"] for r in runs), len(sat), n, len(bad), len(inconclusive), wall))
    if violations:
        return 1
    for i in inconclusive[:6]:
        print("INCONCLUSIVE property=C20 %s" % i)
    return 2 if inconclusive else 0


if __name__ == "__main__":
    sys.exit(run(os.environ.get("VERIF_TIER", "quick"), int(os.environ.get("VERIF_SEED", "0"))))
