"""Term JSON (from verif-host / from the reference denotation) -> z3.

One `Ctx` per query family (per project): it owns the Locale enum sort, the plural-category sort and the
uninterpreted functions, so that the generated term and the reference term share symbols.
"""
import z3
import time

CATS = ["Zero", "One", "Two", "Few", "Many", "Other"]

INT_TYPES = {
    "i8": (8, True), "i16": (16, True), "i32": (32, True), "i64": (64, True), "isize": (64, True),
    "u8": (8, False), "u16": (16, False), "u32": (32, False), "u64": (64, False), "usize": (64, False),
}
FP_TYPES = {"f32": z3.Float32, "f64": z3.Float64}


class Inconclusive(Exception):
    pass


def collect_num_types(term, acc):
    """Walk a term; for every field compared with a typed literal, remember the literal's type."""
    if isinstance(term, dict):
        if term.get("c") == "cmp":
            l, r = term["l"], term["r"]
            for a, b in ((l, r), (r, l)):
                if a.get("n") == "field" and b.get("n") == "lit":
                    acc.setdefault(a["name"], set()).add(b["ty"])
        for v in term.values():
            collect_num_types(v, acc)
    elif isinstance(term, list):
        for v in term:
            collect_num_types(v, acc)


class Ctx:
    _counter = 0

    def __init__(self, locales, num_types=None):
        Ctx._counter += 1
        self.id = Ctx._counter
        self.locales = list(locales)
        self.LocSort, consts = z3.EnumSort("Locale_%d" % self.id, ["L_" + l for l in self.locales])
        self.loc_const = dict(zip(self.locales, consts))
        self.CatSort, cconsts = z3.EnumSort("Cat_%d" % self.id, CATS)
        self.cat_const = dict(zip(CATS, cconsts))
        self.L = z3.Const("L", self.LocSort)
        self.num_types = dict(num_types or {})  # field -> type name
        self.funcs = {}
        self.vars = {}
        self.nums = {}
        self.side = []
        self.side_vars = []

    # ------------------------------------------------------------ sorts
    def num_sort(self, name):
        ty = self.num_types.get(name, "plural")
        if ty in INT_TYPES:
            return z3.BitVecSort(INT_TYPES[ty][0])
        if ty in FP_TYPES:
            return FP_TYPES[ty]()
        return z3.BitVecSort(64)  # plural operand: opaque 64-bit value

    def num_field(self, name):
        if name not in self.nums:
            self.nums[name] = z3.Const("n_" + name, self.num_sort(name))
        return self.nums[name]

    def svar(self, name):
        if name not in self.vars:
            self.vars[name] = z3.String("s_" + name)
        return self.vars[name]

    # ------------------------------------------------------------ str::trim
    WS = [9, 10, 11, 12, 13, 32, 0x85, 0xA0, 0x1680] + list(range(0x2000, 0x200B)) + [0x2028, 0x2029, 0x202F, 0x205F, 0x3000]

    def trim(self, s):
        """Rust's str::trim: s = pre . t . post, pre/post white space only, t neither starts nor ends with one.
        t is functionally determined by s; the defining constraints are collected in self.side."""
        key = ("trim", str(s))
        if key in self.funcs:
            return self.funcs[key]
        n = len(self.side_vars)
        t = z3.String("trim_t_%d" % n)
        pre = z3.String("trim_pre_%d" % n)
        post = z3.String("trim_post_%d" % n)
        self.side_vars.append(t)
        ws = z3.Union(*[z3.Re(z3.StringVal(chr(c))) for c in self.WS])
        anyc = z3.Star(z3.AllChar(z3.ReSort(z3.StringSort())))
        self.side.append(s == z3.Concat(pre, t, post))
        self.side.append(z3.InRe(pre, z3.Star(ws)))
        self.side.append(z3.InRe(post, z3.Star(ws)))
        self.side.append(z3.Not(z3.InRe(t, z3.Concat(ws, anyc))))
        self.side.append(z3.Not(z3.InRe(t, z3.Concat(anyc, ws))))
        self.funcs[key] = t
        return t

    # ------------------------------------------------------------ encoders
    def loc(self, l):
        if l["l"] == "sym":
            return self.L
        v = l["v"]
        if v not in self.loc_const:
            raise Inconclusive("unknown locale %r" % v)
        return self.loc_const[v]

    def num(self, n, want_ty=None):
        if n["n"] == "field":
            return self.num_field(n["name"]), self.num_types.get(n["name"], "plural")
        ty = n["ty"]
        v = n["v"]
        if ty in INT_TYPES:
            return z3.BitVecVal(int(v), INT_TYPES[ty][0]), ty
        if ty in FP_TYPES:
            return z3.FPVal(float(v), FP_TYPES[ty]()), ty
        raise Inconclusive("numeric type %r" % ty)

    def cmp(self, op, l, r):
        a, ta = self.num(l)
        b, tb = self.num(r)
        ty = ta if ta != "plural" else tb
        if ta != tb and "plural" not in (ta, tb):
            raise Inconclusive("comparison between %s and %s" % (ta, tb))
        if a.sort() != b.sort():
            raise Inconclusive("sort mismatch in comparison (%s vs %s)" % (a.sort(), b.sort()))
        if ty in FP_TYPES:
            return {"eq": z3.fpEQ, "le": z3.fpLEQ, "lt": z3.fpLT}[op](a, b)
        signed = INT_TYPES.get(ty, (64, False))[1]
        if op == "eq":
            return a == b
        if op == "le":
            return (a <= b) if signed else z3.ULE(a, b)
        if op == "lt":
            return (a < b) if signed else z3.ULT(a, b)
        raise Inconclusive("cmp op %r" % op)

    def cat(self, c):
        x, ty = self.num(c["x"])
        key = ("cat", str(x.sort()))
        if key not in self.funcs:
            self.funcs[key] = z3.Function("cat_%s" % str(x.sort()).replace("(", "_").replace(")", "").replace(",", "_").replace(" ", ""),
                                          self.LocSort, z3.StringSort(), x.sort(), self.CatSort)
        return self.funcs[key](self.loc(c["loc"]), z3.StringVal(c["rule"]), x)

    def cond(self, c):
        k = c["c"]
        if k == "true":
            return z3.BoolVal(True)
        if k == "false":
            return z3.BoolVal(False)
        if k == "loc":
            for v in c["in"]:
                if v not in self.loc_const:
                    raise Inconclusive("unknown locale %r" % v)
            return z3.Or([self.L == self.loc_const[v] for v in c["in"]])
        if k == "cmp":
            return self.cmp(c["op"], c["l"], c["r"])
        if k == "and":
            return z3.And([self.cond(x) for x in c["a"]])
        if k == "or":
            return z3.Or([self.cond(x) for x in c["a"]])
        if k == "not":
            return z3.Not(self.cond(c["a"]))
        if k == "streq":
            return self.term(c["x"]) == z3.StringVal(c["v"])
        if k == "cateq":
            if c["v"] not in self.cat_const:
                raise Inconclusive("unknown category %r" % c["v"])
            return self.cat(c["x"]) == self.cat_const[c["v"]]
        raise Inconclusive("cond %r" % k)

    def arg(self, a):
        k = a["a"]
        if k == "term":
            return self.term(a["v"])
        if k == "loc":
            return self.loc(a["v"])
        if k == "tok":
            return z3.StringVal("tok:" + norm_tok(a["v"]))
        if k == "num":
            return self.num(a["v"])[0]
        raise Inconclusive("arg %r" % k)

    def term(self, t):
        if "err" in t:
            raise Inconclusive(t["err"])
        k = t["t"]
        if k == "str":
            return z3.StringVal(t["v"])
        if k == "var":
            return self.svar(t["n"])
        if k == "cat":
            parts = [self.term(x) for x in t["a"]]
            if not parts:
                return z3.StringVal("")
            if len(parts) == 1:
                return parts[0]
            return z3.Concat(*parts)
        if k == "ite":
            return z3.If(self.cond(t["c"]), self.term(t["a"]), self.term(t["b"]))
        if k == "app" and t["f"] == "trim":
            return self.trim(self.term(t["a"][0]["v"]))
        if k == "app":
            args = [self.arg(a) for a in t["a"]]
            key = ("app", t["f"], tuple(str(a.sort()) for a in args))
            if key not in self.funcs:
                self.funcs[key] = z3.Function("%s_%d" % (t["f"], len(self.funcs)), *([a.sort() for a in args] + [z3.StringSort()]))
            return self.funcs[key](*args)
        if k == "unreach":
            return z3.StringVal("\x00UNREACHABLE:" + t.get("why", ""))
        raise Inconclusive("term %r" % k)


def norm_tok(s):
    return "".join(s.split()).replace("l_i18n_crate::", "leptos_i18n::")


def ctx_for(locales, *terms):
    acc = {}
    for t in terms:
        collect_num_types(t, acc)
    num_types = {}
    for name, tys in acc.items():
        if len(tys) != 1:
            raise Inconclusive("field %s compared with literals of types %s" % (name, sorted(tys)))
        num_types[name] = next(iter(tys))
    return Ctx(locales, num_types)


class Result:
    def __init__(self, status, model=None, secs=0.0, reason=None, smt2=None):
        self.status = status  # 'unsat' | 'sat' | 'unknown'
        self.model = model
        self.secs = secs
        self.reason = reason
        self.smt2 = smt2


def decode_string(v):
    s = v.as_string()
    return s


def extract_model(ctx, m):
    out = {"locale": None, "strings": {}, "nums": {}, "funcs": {}}
    lv = m.eval(ctx.L, model_completion=True)
    out["locale"] = str(lv)[2:] if str(lv).startswith("L_") else str(lv)
    for name, v in ctx.vars.items():
        out["strings"][name] = z3_str(m.eval(v, model_completion=True))
    for name, v in ctx.nums.items():
        val = m.eval(v, model_completion=True)
        ty = ctx.num_types.get(name, "plural")
        if ty in FP_TYPES:
            out["nums"][name] = {"ty": ty, "v": fp_to_py(val)}
        else:
            n = val.as_long()
            w, signed = INT_TYPES.get(ty, (64, False))
            if signed and n >= 1 << (w - 1):
                n -= 1 << w
            out["nums"][name] = {"ty": ty, "v": n}
    for key, f in ctx.funcs.items():
        try:
            out["funcs"][f.name()] = str(m[f])
        except Exception:
            pass
    return out


def z3_str(v):
    try:
        return v.as_string()
    except Exception:
        return str(v)


def fp_to_py(val):
    try:
        if z3.is_fp(val):
            if val.isNaN():
                return "NaN"
            if val.isInf():
                return "-inf" if val.isNegative() else "inf"
            s = str(z3.simplify(z3.fpToReal(val)))
            return s
    except Exception:
        pass
    return str(val)


def differ(ctx, a, b, timeout_ms=20000, want_smt2=False, extra=None):
    """Is there an assignment (locale, strings, counts, functions) where a != b ?"""
    s = z3.Solver()
    s.set("timeout", timeout_ms)
    ta = ctx.term(a)
    tb = ctx.term(b)
    if extra is not None:
        s.add(extra)
    for c in ctx.side:
        s.add(c)
    s.add(ta != tb)
    t0 = time.time()
    r = s.check()
    secs = time.time() - t0
    smt2 = s.to_smt2() if want_smt2 else None
    if r == z3.unsat:
        return Result("unsat", secs=secs, smt2=smt2)
    if r == z3.sat:
        m = s.model()
        model = extract_model(ctx, m)
        model["lhs"] = z3_str(m.eval(ta, model_completion=True))
        model["rhs"] = z3_str(m.eval(tb, model_completion=True))
        return Result("sat", model=model, secs=secs, smt2=smt2)
    return Result("unknown", secs=secs, reason=s.reason_unknown(), smt2=smt2)
