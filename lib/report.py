"""Evidence files, known findings, VIOLATION lines."""
import json
import os
import time

VERIF = os.path.dirname(os.path.dirname(os.path.abspath(__file__)))
EVIDENCE = os.path.join(VERIF, "evidence")
KNOWN = os.path.join(VERIF, "known_findings.json")
REPLAYS = os.path.join(VERIF, "work", "replays")


def load_known():
    if not os.path.exists(KNOWN):
        return []
    with open(KNOWN) as f:
        return json.load(f).get("findings", [])


def matches(sig, known, prop):
    """A known finding suppresses a violation when every key of its `match` equals the violation's signature."""
    for k in known:
        if k.get("property") != prop:
            continue
        m = k.get("match", {})
        if all(str(sig.get(a)) == str(b) or (isinstance(b, str) and b.endswith("*") and str(sig.get(a, "")).startswith(b[:-1])) for a, b in m.items()):
            return k
    return None


def write_replay(prop, name, payload):
    d = os.path.join(REPLAYS, prop)
    os.makedirs(d, exist_ok=True)
    p = os.path.join(d, name + ".json")
    with open(p, "w") as f:
        json.dump(payload, f, indent=1, ensure_ascii=False, default=str)
    return p


def write_evidence(prop, tier, seed, level, coverage, wall_s, assumptions, violations, extra=None):
    os.makedirs(EVIDENCE, exist_ok=True)
    ev = {
        "property_id": prop,
        "tier": tier,
        "seed": int(seed),
        "level": level,
        "coverage": coverage,
        "assumptions": assumptions,
        "wall_s": round(wall_s, 3),
        "violations": int(violations),
    }
    if extra:
        ev.update(extra)
    with open(os.path.join(EVIDENCE, prop + ".json"), "w") as f:
        json.dump(ev, f, indent=1, ensure_ascii=False, default=str)
    return ev
