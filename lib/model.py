"""Abstract translation projects: what the translation source *says*.

A project is built as abstract values (AV); it is printed to Cargo.toml + locale files (with syntax
variation) and, independently of any parser, given a denotation: for every key a term (same JSON term
language as verif-host emits) describing the text to render for every locale / argument / count.

AV forms (tuples):
  ("str", [part...])          part := ("text", s) | ("var", name, fmt|None) | ("comp", name, [part...])
                                      | ("fk", path, {arg: AV})
                                      | ("range", ...) | ("plural", ...)   (only after expansion)
  ("num", v)                  python int or float (JSON number)
  ("bool", b)
  ("range", ty|None, [(specs, AV)], count_key)     specs := "fallback" | [spec...]
                              spec := ("exact", v) | ("bounds", start|None, end|None, inclusive)
  ("plural", rule, {form: AV}, count_key)   rule in cardinal|ordinal ; forms incl. "other"
  ("sub", {key: AV})
  ("null",)
"""
import json
import math

FORMS = ["zero", "one", "two", "few", "many", "other"]

INT_RANGE = {
    "i8": (-2 ** 7, 2 ** 7 - 1), "i16": (-2 ** 15, 2 ** 15 - 1), "i32": (-2 ** 31, 2 ** 31 - 1), "i64": (-2 ** 63, 2 ** 63 - 1),
    "u8": (0, 2 ** 8 - 1), "u16": (0, 2 ** 16 - 1), "u32": (0, 2 ** 32 - 1), "u64": (0, 2 ** 64 - 1),
}
FLOAT_TYPES = ("f32", "f64")


class ExpectError(Exception):
    """The source is not a valid project: loading must fail with an error of this kind."""

    def __init__(self, kind, detail=""):
        super().__init__("%s %s" % (kind, detail))
        self.kind = kind
        self.detail = detail


class Undecided(Exception):
    """The property text does not pin the outcome (documented as unsupported): no verdict."""


# ---------------------------------------------------------------------------------- term helpers
def T_str(s):
    return {"t": "str", "v": s}


def T_var(n):
    return {"t": "var", "n": n}


def T_cat(parts):
    out = []
    for p in parts:
        if p["t"] == "cat":
            out.extend(p["a"])
        elif p["t"] == "str" and p["v"] == "":
            continue
        else:
            out.append(p)
    if len(out) == 1:
        return out[0]
    return {"t": "cat", "a": out}


def T_ite(c, a, b):
    return {"t": "ite", "c": c, "a": a, "b": b}


def T_app(f, args):
    return {"t": "app", "f": f, "a": args}


def T_unreach():
    return {"t": "unreach", "why": "non-exhaustive match"}


def A_term(t):
    return {"a": "term", "v": t}


def A_loc_sym():
    return {"a": "loc", "v": {"l": "sym"}}


def A_tok(s):
    return {"a": "tok", "v": s}


def N_field(name):
    return {"n": "field", "name": name}


def N_lit(ty, v):
    if ty in FLOAT_TYPES:
        return {"n": "lit", "ty": ty, "v": repr(float(v))}
    return {"n": "lit", "ty": ty, "v": str(int(v))}


def C_cmp(op, l, r):
    return {"c": "cmp", "op": op, "l": l, "r": r}


def C_or(cs):
    return cs[0] if len(cs) == 1 else {"c": "or", "a": cs}


def C_and(cs):
    return cs[0] if len(cs) == 1 else {"c": "and", "a": cs}


def C_loc(locs):
    return {"c": "loc", "in": list(locs)}


def rust_display_num(v):
    """Rust's Display of an i64/u64/f64 literal value (restricted to values where it is obvious)."""
    if isinstance(v, bool):
        return "true" if v else "false"
    if isinstance(v, int):
        return str(v)
    if math.isfinite(v) and v == int(v) and abs(v) < 1e15:
        if v == 0 and math.copysign(1.0, v) < 0:
            return "-0"          # Rust prints the sign of negative zero
        return str(int(v))
    r = repr(v)
    if "e" in r or "E" in r:
        raise Undecided("float display of %r" % v)
    return r


# ---------------------------------------------------------------------------------- formatters (documented vocabulary)
ICU = "leptos_i18n::reexports::icu::"
FMT_DOC = {
    # name -> (term function, [(arg name, {value: token}, default value)])
    "number": ("fmt_number", [("grouping_strategy", {v: ICU + "decimal::options::GroupingStrategy::" + v.capitalize() for v in ("auto", "never", "always", "min2")}, "auto")]),
    "currency": ("fmt_currency", [("width", {v: ICU + "currency::options::Width::" + v.capitalize() for v in ("short", "narrow")}, "short"),
                                  ("currency_code", None, "USD")]),
    "date": ("fmt_date", [("date_length", {v: ICU + "datetime::options::length::Date::" + v.capitalize() for v in ("full", "long", "medium", "short")}, "medium")]),
    "time": ("fmt_time", [("time_length", {v: ICU + "datetime::options::length::Time::" + v.capitalize() for v in ("full", "long", "medium", "short")}, "short")]),
    "datetime": ("fmt_datetime", [("date_length", {v: ICU + "datetime::options::length::Date::" + v.capitalize() for v in ("full", "long", "medium", "short")}, "medium"),
                                  ("time_length", {v: ICU + "datetime::options::length::Time::" + v.capitalize() for v in ("full", "long", "medium", "short")}, "short")]),
    "list": ("fmt_list", [("list_type", {v: "leptos_i18n::__private::ListType::" + v.capitalize() for v in ("and", "or", "unit")}, "unit"),
                          ("list_style", {v: ICU + "list::ListLength::" + v.capitalize() for v in ("wide", "short", "narrow")}, "wide")]),
}


def currency_tok(code):
    return 'CurrencyCode(tinystr!(3,"%s"))' % code


def fmt_term(fmt, var_term):
    """fmt = {"name": .., "args": [(k, v), ...]}: documented meaning = formatter applied with the given
    options, defaults for omitted / unrecognised ones, for the locale being rendered."""
    name = fmt["name"]
    if name not in FMT_DOC:
        raise ExpectError("UnknownFormatter", name)
    fn, params = FMT_DOC[name]
    args = [A_loc_sym(), A_term(var_term)]
    given = fmt.get("args") or []
    for pname, values, default in params:
        chosen = None
        for k, v in given:
            if k != pname:
                continue
            if values is None:
                # currency code: any 1..3 ascii chars accepted by TinyAsciiStr<3>
                if 1 <= len(v) <= 3 and all(ord(c) < 128 and c != "\0" for c in v):
                    chosen = v
                    break
            elif v in values:
                chosen = v
                break
        if chosen is None:
            chosen = default
        args.append(A_tok(currency_tok(chosen) if values is None else values[chosen]))
    return T_app(fn, args)


# ---------------------------------------------------------------------------------- project
class Project:
    def __init__(self, default, locales, files, inherits=None, namespaces=None, style=None, name="p"):
        self.default = default
        self.locales = list(locales)
        self.inherits = dict(inherits or {})
        self.namespaces = list(namespaces) if namespaces else None
        # files: {locale: {key: AV}} or {ns: {locale: {key: AV}}}
        self.files = files
        self.style = style or {}
        self.name = name
        self.plural_oracle = None  # callable(locale, rule, number) -> category name, set by the engine

    # enum order used by the code generator: default first (swap, not rotate)
    def locale_order(self):
        l = list(self.locales)
        if self.default in l:
            i = l.index(self.default)
            l[0], l[i] = l[i], l[0]
        else:
            l.append(self.default)
            l[0], l[-1] = l[-1], l[0]
        return l

    def ident(self, locale):
        return locale.replace("-", "_")

    def file_of(self, ns, loc):
        if self.namespaces:
            return self.files[ns][loc]
        return self.files[loc]

    # ------------------------------------------------------------------ lookup / fallback (C03)
    def raw_lookup(self, ns, loc, path):
        cur = ("sub", self.file_of(ns, loc))
        for k in path:
            if cur[0] != "sub":
                return None
            if k not in cur[1]:
                return None
            cur = cur[1][k]
        return cur

    def defined(self, ns, loc, path):
        v = self.raw_lookup(ns, loc, path)
        return v is not None and v[0] != "null"

    def chain(self, loc):
        """loc, inherits(loc), ... ; ends with the default locale; a repeated locale ends the walk."""
        seen = []
        cur = loc
        while True:
            if cur in seen:
                break
            seen.append(cur)
            if cur == self.default:
                return seen
            if cur in self.inherits:
                cur = self.inherits[cur]
            else:
                break
        if self.default not in seen:
            seen.append(self.default)
        return seen

    def effective_locale(self, ns, loc, path):
        if loc == self.default:
            return self.default
        # walk while locales do not define the key; a loop or the end of the chain gives the default
        seen = set()
        cur = loc
        while True:
            if self.defined(ns, cur, path):
                return cur
            seen.add(cur)
            if cur == self.default:
                return self.default
            nxt = self.inherits.get(cur)
            if nxt is None or nxt in seen:
                return self.default
            cur = nxt

    # ------------------------------------------------------------------ key enumeration (default locale)
    def leaf_keys(self):
        """[(ns, path)] of every value key reachable through the default locale."""
        out = []

        def walk(ns, d, prefix):
            for k in sorted(d):
                v = d[k]
                if v[0] == "sub":
                    walk(ns, v[1], prefix + [k])
                else:
                    out.append((ns, prefix + [k]))

        if self.namespaces:
            for ns in self.namespaces:
                walk(ns, self.files[ns][self.default], [])
        else:
            walk(None, self.files[self.default], [])
        return out

    # ------------------------------------------------------------------ foreign key expansion (C06)
    def parse_fk_path(self, s):
        if ":" in s:
            ns, rest = s.split(":", 1)
            return ns.strip(), [k.strip() for k in rest.split(".")]
        return None, [k.strip() for k in s.split(".")]

    def expand(self, ns, loc, av, stack=()):
        """Value with every foreign key replaced by what it denotes (in locale `loc`)."""
        k = av[0]
        if k == "str":
            return ("str", self.expand_parts(ns, loc, av[1], stack))
        if k == "range":
            return ("range", av[1], [(s, self.expand(ns, loc, v, stack)) for s, v in av[2]], av[3])
        if k == "plural":
            return ("plural", av[1], {f: self.expand(ns, loc, v, stack) for f, v in av[2].items()}, av[3])
        return av

    def expand_parts(self, ns, loc, parts, stack):
        out = []
        for p in parts:
            if p[0] == "comp":
                out.append(("comp", p[1], self.expand_parts(ns, loc, p[2], stack)))
            elif p[0] == "fk":
                out.extend(self.expand_fk(ns, loc, p, stack))
            else:
                out.append(p)
        return out

    def expand_fk(self, ns, loc, p, stack):
        tns, tpath = self.parse_fk_path(p[1])
        if bool(self.namespaces) != (tns is not None):
            raise ExpectError("MissingForeignKey", p[1])
        if tns is not None and tns not in self.namespaces:
            raise ExpectError("MissingForeignKey", p[1])
        ident = (tns, tuple(tpath), loc)
        if ident in stack:
            raise ExpectError("RecursiveForeignKey", p[1])
        tv = self.raw_lookup(tns, loc, tpath)
        tloc = loc
        if tv is None:
            # documented: "You can point to explicitly defaulted keys, but not implicitly defaulted ones"
            raise Undecided("foreign key to a key absent from locale %s" % loc)
        if tv[0] == "null":
            if loc == self.default:
                raise ExpectError("ExplicitDefaultInDefault", p[1])
            # renders what the referenced key renders in this locale: the C03 fallback value
            tloc = self.effective_locale(tns, loc, tpath)
            tv = self.raw_lookup(tns, tloc, tpath)
            if tv is None or tv[0] == "null":
                raise ExpectError("ExplicitDefaultInDefault", p[1])
            ident = (tns, tuple(tpath), tloc)
        if tv[0] == "sub":
            raise ExpectError("InvalidForeignKey", p[1])
        target = self.expand(tns, tloc, tv, stack + (ident,))
        args = {}
        for name, a in (p[2] or {}).items():
            args[name.strip()] = self.expand(ns, loc, a, stack)
        res = self.subst(target, args, tloc)
        if res[0] == "str":
            return list(res[1])
        if res[0] in ("num", "bool"):
            return [("text", rust_display_num(res[1]))]
        return [res]

    # ------------------------------------------------------------------ substitution
    def arg_parts(self, a):
        if a[0] == "str":
            return list(a[1])
        if a[0] in ("num", "bool"):
            return [("text", rust_display_num(a[1]))]
        raise Undecided("argument of kind %s" % a[0])

    def subst(self, av, args, loc):
        k = av[0]
        if not args:
            return av
        if k == "str":
            return ("str", self.subst_parts(av[1], args, loc))
        if k == "range":
            return self.subst_counted(av, args, loc)
        if k == "plural":
            return self.subst_counted(av, args, loc)
        return av

    def subst_parts(self, parts, args, loc):
        out = []
        for p in parts:
            if p[0] == "var" and p[1] in args:
                out.extend(self.arg_parts(args[p[1]]))
            elif p[0] == "comp":
                out.append(("comp", p[1], self.subst_parts(p[2], args, loc)))
            elif p[0] in ("range", "plural"):
                r = self.subst_counted(p, args, loc)
                if r[0] == "str":
                    out.extend(r[1])
                elif r[0] in ("num", "bool"):
                    out.append(("text", rust_display_num(r[1])))
                else:
                    out.append(r)
            else:
                out.append(p)
        return out

    def count_var_of(self, a):
        """If the argument is exactly one variable (surrounded by blank text) return its name."""
        if a[0] != "str":
            return None
        name = None
        for p in a[1]:
            if p[0] == "text" and p[1].strip() == "":
                continue
            if p[0] == "var" and name is None:
                name = p[1]
                continue
            return None
        return name

    def subst_counted(self, av, args, loc):
        kind = av[0]
        count_key = av[3]
        # the count argument is always called "count" (whatever the current name of the count variable)
        if "count" in args:
            a = args["count"]
            if a[0] == "num":
                n = a[1]
                if kind == "range":
                    chosen = select_range_branch(av, n)
                else:
                    chosen = self.select_plural_form(av, n, loc)
                return self.subst(chosen, args, loc)
            v = self.count_var_of(a)
            if v is None:
                raise ExpectError("InvalidCountArg")
            count_key = v
        if kind == "range":
            return ("range", av[1], [(s, self.subst(v, args, loc)) for s, v in av[2]], count_key)
        return ("plural", av[1], {f: self.subst(v, args, loc) for f, v in av[2].items()}, count_key)

    def select_plural_form(self, av, n, loc):
        if self.plural_oracle is None:
            raise Undecided("no CLDR oracle")
        cat = self.plural_oracle(loc, av[1], n)
        forms = av[2]
        return forms.get(cat, forms["other"])

    # ------------------------------------------------------------------ denotation
    def denote_parts(self, parts):
        out = []
        for p in parts:
            k = p[0]
            if k == "text":
                out.append(T_str(p[1]))
            elif k == "var":
                v = T_var("var_" + p[1])
                out.append(fmt_term(p[2], v) if p[2] else v)
            elif k == "comp":
                out.append(T_app("comp_" + p[1], [A_term(self.denote_parts(p[2]))]))
            elif k in ("range", "plural"):
                out.append(self.denote_value(p))
            else:
                raise Undecided("part %r" % (k,))
        return T_cat(out) if out else T_str("")

    def denote_value(self, av):
        k = av[0]
        if k == "str":
            return self.denote_parts(av[1])
        if k in ("num", "bool"):
            return T_str(rust_display_num(av[1]))
        if k == "range":
            ty = av[1] or "i32"
            x = N_field("var_" + av[3])
            res = None
            branches = list(av[2])
            # first declared branch containing the count; fallback otherwise
            tail = T_unreach()
            for specs, v in reversed(branches):
                t = self.denote_value(v)
                c = specs_cond(ty, specs, x)
                if c is True:
                    tail = t
                else:
                    tail = T_ite(c, t, tail)
            return tail
        if k == "plural":
            rule = "Cardinal" if av[1] == "cardinal" else "Ordinal"
            x = N_field("var_" + av[3])
            cat = {"loc": {"l": "sym"}, "rule": rule, "x": x}
            tail = self.denote_value(av[2]["other"])
            for f in reversed(FORMS[:-1]):
                if f in av[2]:
                    tail = T_ite({"c": "cateq", "x": cat, "v": f.capitalize()}, self.denote_value(av[2][f]), tail)
            return tail
        raise Undecided("value kind %r" % (k,))

    def denote_key_in(self, ns, loc, path):
        """Term for key `path` as written in locale `loc` (which must define it)."""
        v = self.raw_lookup(ns, loc, path)
        return self.denote_value(self.expand(ns, loc, v, ((ns, tuple(path), loc),)))

    def check_count_conflicts(self, ns, path):
        """One count variable cannot be a range count and a plural count, nor a range count of two types (C08)."""
        _, _, counts = self.required_args(ns, path)
        for name, kinds in counts.items():
            if "plural" in kinds and len(kinds) > 1:
                raise ExpectError("RangeAndPluralsMix", name)
            if len(kinds) > 1:
                raise ExpectError("RangeTypeMissmatch", name)

    def denote_key(self, ns, path):
        """Term over the symbolic locale: effective-locale selection (C03) around per-locale text."""
        self.check_count_conflicts(ns, path)
        groups = {}
        for l in self.locale_order():
            e = self.effective_locale(ns, l, path)
            groups.setdefault(e, []).append(l)
        items = list(groups.items())
        term = None
        for e, ls in reversed(items):
            t = self.denote_key_in(ns, e, path)
            if term is None:
                term = t
            else:
                term = T_ite(C_loc([self.ident(l) for l in ls]), t, term)
        return term

    # ------------------------------------------------------------------ required arguments (C08)
    def required_args(self, ns, path):
        """Union over all locales of variables / components of the key (after substitution) + count kinds."""
        vars_, comps, counts = {}, set(), {}

        def walk_value(av):
            k = av[0]
            if k == "str":
                walk_parts(av[1])
            elif k == "range":
                counts.setdefault("var_" + av[3], set()).add(av[1] or "i32")
                vars_.setdefault("var_" + av[3], set())
                for _, v in av[2]:
                    walk_value(v)
            elif k == "plural":
                counts.setdefault("var_" + av[3], set()).add("plural")
                vars_.setdefault("var_" + av[3], set())
                for v in av[2].values():
                    walk_value(v)

        def walk_parts(parts):
            for p in parts:
                if p[0] == "var":
                    vars_.setdefault("var_" + p[1], set()).add(p[2]["name"] if p[2] else None)
                elif p[0] == "comp":
                    comps.add("comp_" + p[1])
                    walk_parts(p[2])
                elif p[0] in ("range", "plural"):
                    walk_value(p)

        for l in self.locale_order():
            if not self.defined(ns, l, path):
                continue
            v = self.raw_lookup(ns, l, path)
            walk_value(self.expand(ns, l, v, ((ns, tuple(path), l),)))
        return vars_, comps, counts

    # ------------------------------------------------------------------ printing
    def write(self, directory):
        import os
        os.makedirs(directory, exist_ok=True)
        cfg = ['[package]', 'name = "%s"' % self.name, 'version = "0.1.0"', 'edition = "2021"', '',
               '[package.metadata.leptos-i18n]', 'default = %s' % json.dumps(self.default),
               'locales = %s' % json.dumps(self.locales)]
        if self.namespaces:
            cfg.append('namespaces = %s' % json.dumps(self.namespaces))
        if self.inherits:
            cfg.append('inherits = { %s }' % ", ".join('%s = %s' % (json.dumps(k), json.dumps(v)) for k, v in self.inherits.items()))
        with open(os.path.join(directory, "Cargo.toml"), "w") as f:
            f.write("\n".join(cfg) + "\n")
        ldir = os.path.join(directory, "locales")
        ascii_only = bool(self.style.get("ascii_escapes"))
        fmt = self.style.get("format", "json")
        ext = self.style.get("ext") or {"json": ".json", "yaml": ".yaml", "json5": ".json5"}[fmt]

        def dump(data, path):
            with open(path, "w", encoding="utf-8") as f:
                if fmt == "json":
                    json.dump(data, f, ensure_ascii=ascii_only, indent=1)
                elif fmt == "yaml":
                    f.write(to_yaml(data))
                else:
                    f.write(to_json5(data))
        if self.namespaces:
            for loc in self.locale_order():
                os.makedirs(os.path.join(ldir, loc), exist_ok=True)
                for ns in self.namespaces:
                    dump(self.print_map(self.files[ns][loc]), os.path.join(ldir, loc, ns + ext))
        else:
            os.makedirs(ldir, exist_ok=True)
            for loc in self.locale_order():
                dump(self.print_map(self.files[loc]), os.path.join(ldir, loc + ext))

    def print_map(self, d):
        out = {}
        order = list(d)
        if self.style.get("reverse_keys"):
            order = list(reversed(order))
        if self.style.get("shuffle_keys") is not None:
            import random as _r
            _r.Random("%s/%s" % (self.style["shuffle_keys"], ",".join(order))).shuffle(order)
        for k in order:
            v = d[k]
            if v[0] == "plural":
                rule = "_ordinal" if v[1] == "ordinal" else ""
                for form, fv in v[2].items():
                    out["%s%s_%s" % (k, rule, form)] = self.print_value(fv)
            else:
                out[k] = self.print_value(v)
        return out

    def print_value(self, v):
        k = v[0]
        if k == "str":
            return self.print_parts(v[1])
        if k in ("num", "bool"):
            return v[1]
        if k == "null":
            return None
        if k == "sub":
            return self.print_map(v[1])
        if k == "range":
            out = []
            if v[1] is not None:
                out.append(v[1])
            syntax = self.style.get("range_syntax", "seq")
            for i, (specs, val) in enumerate(v[2]):
                pv = self.print_value(val)
                use = syntax if syntax != "mixed" else ("seq" if i % 2 == 0 else "map")
                if use == "seq":
                    if specs == "fallback":
                        out.append([pv] if self.style.get("bare_fallback", True) else [pv, "_"])
                    elif self.style.get("pipe") == "tail" and len(specs) >= 2:
                        out.append([pv, self.print_spec(specs[0], v[1], False), self.pipe_tail(specs[1:], v[1])])
                    elif self.style.get("pipe"):
                        out.append([pv, " | ".join(self.print_spec(s, v[1], True) for s in specs)])
                    else:
                        out.append([pv] + [self.print_spec(s, v[1], False) for s in specs])
                else:
                    n_before = len(out)
                    if specs == "fallback":
                        out.append({"value": pv} if self.style.get("bare_fallback", True) else {"count": "_", "value": pv})
                    elif self.style.get("pipe") == "tail" and len(specs) >= 2:
                        out.append({"count": [self.print_spec(specs[0], v[1], False), self.pipe_tail(specs[1:], v[1])], "value": pv})
                    elif self.style.get("pipe") or len(specs) == 1:
                        c = " | ".join(self.print_spec(s, v[1], True) for s in specs)
                        out.append({"count": c, "value": pv})
                    else:
                        out.append({"count": [self.print_spec(s, v[1], False) for s in specs], "value": pv})
                    # the fields of a map-form entry follow the key order of the writing too
                    ent = out[n_before]
                    if isinstance(ent, dict) and len(ent) == 2:
                        flip = bool(self.style.get("reverse_keys"))
                        if self.style.get("shuffle_keys") is not None:
                            import random as _r
                            flip = _r.Random("%s/entry/%d/%s" % (self.style["shuffle_keys"], i, json.dumps(ent.get("count"), default=str))).random() < 0.5
                        if flip:
                            out[n_before] = {"value": ent["value"], "count": ent["count"]}
            return out
        raise ValueError("cannot print %r" % (k,))

    def pipe_tail(self, specs, ty):
        # an "a | b" string that is not the first element of a list of counts
        specs = list(specs) if len(specs) >= 2 else [specs[0], specs[0]]
        return " | ".join(self.print_spec(s, ty, True) for s in specs)

    def print_spec(self, s, ty, force_str):
        ty = ty or "i32"

        def num(n):
            if ty in FLOAT_TYPES:
                return repr(float(n))
            return str(int(n))

        if s[0] == "exact":
            if not force_str and self.style.get("numeric_counts") and not (ty in FLOAT_TYPES and float(s[1]) != s[1]):
                return s[1] if ty not in FLOAT_TYPES else float(s[1])
            return num(s[1])
        _, a, b, incl = s
        sp = " " if self.style.get("spaces") else ""
        return "%s%s..%s%s%s" % (num(a) if a is not None else "", sp, "=" if incl and b is not None else "", sp if (incl and b is not None) else "", num(b) if b is not None else "")

    def print_parts(self, parts):
        sp = " " if self.style.get("spaces", True) else ""
        if self.style.get("wide_spaces"):
            sp = "  "
        out = []
        for p in parts:
            k = p[0]
            if k == "text":
                out.append(p[1])
            elif k == "var":
                if p[2]:
                    f = p[2]
                    fs = f.get("src")
                    if fs is None:
                        fs = f["name"]
                        if f.get("args") is not None:
                            fs += "(" + "; ".join("%s: %s" % (a, b) for a, b in f["args"]) + ")"
                    out.append("{{%s%s,%s%s%s}}" % (sp, p[1], sp, fs, sp))
                else:
                    out.append("{{%s%s%s}}" % (sp, p[1], sp))
            elif k == "comp":
                tsp = " " if self.style.get("tag_spaces") else ""
                out.append("<%s%s%s>%s<%s/%s%s%s>" % (tsp, p[1], tsp, self.print_parts(p[2]), tsp, tsp, p[1], tsp))
            elif k == "fk":
                fsp = " " if self.style.get("fk_spaces") else ""
                if p[2]:
                    args = {}
                    for name, a in p[2].items():
                        args[name] = self.print_value(a)
                    out.append("$t(%s%s%s,%s%s%s)" % (fsp, p[1], fsp, " ", json.dumps(args, ensure_ascii=False), fsp))
                else:
                    out.append("$t(%s%s%s)" % (fsp, p[1], fsp))
            else:
                raise ValueError("cannot print part %r" % (k,))
        return "".join(out)


# ---------------------------------------------------------------------------------- ranges
def spec_contains(ty, s, n):
    """Rust semantics of the count specification, on python numbers."""
    if s[0] == "exact":
        return n == s[1]
    _, a, b, incl = s
    if a is not None and not (a <= n):
        return False
    if b is not None:
        if incl:
            return n <= b
        return n < b
    return True


def select_range_branch(av, n):
    ty = av[1] or "i32"
    if ty in FLOAT_TYPES:
        if isinstance(n, int):
            # a JSON integer is not accepted as the count of a float range
            raise ExpectError("InvalidCountArgType")
        n = float(n)
        if ty == "f32":
            import struct
            n = struct.unpack("f", struct.pack("f", n))[0]
    else:
        if isinstance(n, float):
            raise ExpectError("InvalidCountArgType")
        lo, hi = INT_RANGE[ty]
        if not (lo <= n <= hi):
            raise ExpectError("CountArgOutsideRange")
    for specs, v in av[2]:
        if specs == "fallback" or any(spec_contains(ty, s, n) for s in specs):
            return v
    raise Undecided("literal count hits no branch of a range without fallback")


def specs_cond(ty, specs, x):
    if specs == "fallback":
        return True
    cs = []
    for s in specs:
        if s[0] == "exact":
            cs.append(C_cmp("eq", x, N_lit(ty, s[1])))
        else:
            _, a, b, incl = s
            parts = []
            if a is not None:
                parts.append(C_cmp("le", N_lit(ty, a), x))
            if b is not None:
                parts.append(C_cmp("le" if incl else "lt", x, N_lit(ty, b)))
            cs.append(C_and(parts) if parts else {"c": "true"})
    return C_or(cs)


# ---------------------------------------------------------------------------------- small constructors
def S(*parts):
    out = []
    for p in parts:
        out.append(("text", p) if isinstance(p, str) else p)
    return ("str", out)


def V(name, fmt=None):
    return ("var", name, fmt)


def Cp(name, *parts):
    return ("comp", name, S(*parts)[1])


def FK(path, args=None):
    return ("fk", path, args or {})


def NUM(v):
    return ("num", v)


def NULL():
    return ("null",)


def SUB(d):
    return ("sub", d)


def RANGE(ty, branches, count_key="count"):
    return ("range", ty, branches, count_key)


def PLURAL(rule, forms, count_key="count"):
    return ("plural", rule, forms, count_key)


# ------------------------------------------------------------------------------------------ other file formats
def _yaml_scalar(v):
    if v is None:
        return "null"
    if v is True:
        return "true"
    if v is False:
        return "false"
    if isinstance(v, (int, float)):
        return repr(v) if isinstance(v, float) else str(v)
    # double-quoted YAML scalar: JSON's escapes for the ASCII range, \\uXXXX / \\UXXXXXXXX for everything else
    # (YAML has no surrogate pairs)
    out = ['"']
    for ch in v:
        o = ord(ch)
        if ch == '"':
            out.append('\\"')
        elif ch == "\\":
            out.append("\\\\")
        elif ch == "\n":
            out.append("\\n")
        elif ch == "\r":
            out.append("\\r")
        elif ch == "\t":
            out.append("\\t")
        elif 0x20 <= o < 0x7f:
            out.append(ch)
        elif o <= 0xffff:
            out.append("\\u%04x" % o)
        else:
            out.append("\\U%08x" % o)
    out.append('"')
    return "".join(out)


def to_yaml(data, indent=0):
    """Block-style YAML for mappings, flow style for sequences (range declarations), double-quoted strings."""
    pad = "  " * indent
    if isinstance(data, dict):
        if not data:
            return pad + "{}\n" if indent == 0 else "{}\n"
        out = []
        for k, v in data.items():
            key = _yaml_scalar(k)
            if isinstance(v, dict) and v:
                out.append("%s%s:\n%s" % (pad, key, to_yaml(v, indent + 1)))
            elif isinstance(v, dict):
                out.append("%s%s: {}\n" % (pad, key))
            elif isinstance(v, list):
                out.append("%s%s: %s\n" % (pad, key, _yaml_flow(v)))
            else:
                out.append("%s%s: %s\n" % (pad, key, _yaml_scalar(v)))
        return "".join(out)
    raise ValueError("top level of a locale file must be a mapping")


def _yaml_flow(v):
    if isinstance(v, list):
        return "[" + ", ".join(_yaml_flow(x) for x in v) + "]"
    if isinstance(v, dict):
        return "{" + ", ".join("%s: %s" % (_yaml_scalar(k), _yaml_flow(x)) for k, x in v.items()) + "}"
    return _yaml_scalar(v)


def to_json5(data, indent=0):
    """JSON5 flavour: comments, unquoted identifier keys, single-quoted strings, trailing commas."""
    import re as _re
    pad = "  " * indent

    def key(k):
        return k if _re.match(r"^[A-Za-z_$][A-Za-z0-9_$]*$", k) else json.dumps(k, ensure_ascii=True)

    def scalar(v):
        if isinstance(v, str):
            body = json.dumps(v, ensure_ascii=True)[1:-1].replace("\\\"", "\"").replace("'", "\\'")
            return "'" + body + "'"
        return json.dumps(v)

    def val(v, ind):
        if isinstance(v, dict):
            if not v:
                return "{}"
            inner = "".join("%s  %s: %s,\n" % ("  " * ind, key(k), val(x, ind + 1)) for k, x in v.items())
            return "{\n" + inner + "  " * ind + "}"
        if isinstance(v, list):
            return "[" + ", ".join(val(x, ind) for x in v) + ",]" if v else "[]"
        return scalar(v)
    return "// generated\n" + val(data, indent) + "\n"
