"""C19 (kernel level): what `ConfigFile::new` does with a deserialised configuration, executed from rustc MIR.

Functions from the MIR of leptos_i18n_parser (regenerated every run): `ConfigFile::new` (+ its `position` closure) and
`ConfigFile::contain_duplicates`. The file system and the TOML front end are summaries: `read_to_string` succeeds or
fails, the marker `[package.metadata.leptos-i18n]` is present or not, `toml::from_str::<ConfigFile>` fails or yields a
configuration whose default locale, locale list (n entries) and optional namespace list (m entries) are symbolic
names compared for equality only (what `Key: PartialEq` does).

Decided by z3 for every path and every value of the names:
  * Ok(cfg)  ==>  cfg.locales[0] == default, cfg.locales is the given list (plus the default when it was not listed)
                   as a multiset, all its entries are distinct, the namespaces are distinct and unchanged;
  * duplicates in the locale list (counting an unlisted default as listed) <==> Err(DuplicateLocalesInConfig);
    otherwise duplicates among the namespaces <==> Err(DuplicateNamespacesInConfig);
  * a missing file / missing section / TOML error is an Err, never a configuration.
The second half of the statement (what CfgFileVisitor::visit_map accepts: `inherits` naming unknown locales or the
default, missing fields, unknown fields ignored; which files are read) is run concretely only (native stage).
"""
import itertools
import json
import os
import re
import shutil
import subprocess
import sys
import time

import z3

import hostrun
import mir2
import mirsmt
import report
import second
from mirsmt import Unsupported

KEY = z3.BitVecSort(8)
USIZE = mir2.USIZE if hasattr(mir2, "USIZE") else 64


class M19(mir2.Machine):
    def rvalue(self, st, frame, r, fn=None, stmt=None):
        r = r.strip()
        m = re.match(r"^(?:std::result::)?Result::<.*>::(Ok|Err)\((.*)\)$", r)
        if m:
            return ("result", m.group(1), self.operand(st, frame, mir2.parse_operand(m.group(2))))
        m = re.match(r"^parse_locales::error::Error::(\w+)(?:\((.*)\))?$", r)
        if m:
            return ("error", m.group(1))
        m = re.match(r"^ConfigFile \{ default: (.*), locales: (.*), name_spaces: (.*), locales_dir: (.*), translations_uri: (.*), extensions: (.*) \}$", r)
        if m:
            return ("struct", tuple(self.operand(st, frame, mir2.parse_operand(m.group(i))) for i in range(1, 7)))
        if re.match(r"^Cow::<.*>::(Borrowed|Owned)\(", r):
            return ("opaque",)
        m = re.match(r"^std::ops::(RangeToInclusive|RangeTo|RangeFrom|Range|RangeInclusive)::<usize> \{ (.*) \}$", r)
        if m:
            fields = {}
            for part in mir2.split_top(m.group(2)):
                k, v = part.split(":", 1)
                fields[k.strip()] = self.operand(st, frame, mir2.parse_operand(v))
            return ("range", m.group(1), fields)
        if r == "std::ops::RangeFull":
            return ("range", "RangeFull", {})
        return super().rvalue(st, frame, r, fn, stmt)

    def operand(self, st, frame, o):
        if o[0] == "const":
            if re.match(r"^b?\"", o[1]):
                return ("strlit", o[1])          # string / format-template literals (only ever handed to error constructors)
            if o[1] == "()":
                return ("unit",)
            if re.match(r"^(parse_locales::)?cfg_file::Field::[A-Z_]+$", o[1]):
                return ("strlit", o[1])          # the field's name, only ever handed to error constructors
            if re.match(r"^Cow::<.*>::Owned$", o[1]):
                return ("fnitem", "Cow::Owned")
            if re.match(r"^parse_locales::error::Error::\w+$", o[1]):
                return ("errctor", o[1].split("::")[-1])
            if re.match(r"^(ConfigFile::contain_duplicates|BTreeSet::<key::Key>::new)$", o[1]):
                return ("fnitem", o[1])
            if re.match(r"^ZeroSized: (\{closure@[^}]*\})$", o[1]):
                return ("closure", re.match(r"^ZeroSized: (\{closure@[^}]*\})$", o[1]).group(1), (), 0)
        return super().operand(st, frame, o)

    def switch_cond(self, v, val):
        if isinstance(v, tuple) and v[0] == "discr":
            o = v[1]
            if isinstance(o, tuple) and o[0] == "result":
                return z3.BoolVal((o[1] == "Ok") == (val == 0))
        return super().switch_cond(v, val)


def write_ptr(m, st, p, v):
    if isinstance(p, tuple) and p[0] == "ptr":
        cur = m.mem_get(st, p[1])
        st.mem[p[1]] = mir2.set_path(cur, p[2], v) if p[2] else v
    else:
        raise Unsupported("write through %r" % (p,))


def build(mir, inp):
    """inp: dict(default, locales[list], namespaces[None|list]) of z3 KEY values"""
    def ret(st, v):
        return [(st, v)]

    flags = {"io_fails": z3.Bool("manifest_cannot_be_read"), "no_section": z3.Bool("section_missing"), "toml_fails": z3.Bool("toml_error")}

    def fork(m, st, cond, a, b):
        outs = []
        if m.feasible(st, cond):
            outs.append((st.fork(cond), a))
        if m.feasible(st, z3.Not(cond)):
            outs.append((st.fork(z3.Not(cond)), b))
        return outs

    def s_unit(m, st, args, callee):
        return ret(st, ("unit",))

    def s_ident(m, st, args, callee):
        return ret(st, args[0])

    def s_read(m, st, args, callee):
        return fork(m, st, flags["io_fails"], ("result", "Err", ("ioerror",)), ("result", "Ok", ("string", "manifest")))

    def s_map_err(m, st, args, callee):
        r, ctor = args
        if r[1] == "Ok":
            return ret(st, r)
        return ret(st, ("result", "Err", ("error", ctor[1] if isinstance(ctor, tuple) and ctor[0] == "errctor" else "?")))

    def s_branch(m, st, args, callee):
        r = args[0]
        # ControlFlow: Continue(v) | Break(Err(e))
        if r[1] == "Ok":
            return ret(st, ("cf", z3.BoolVal(True), r[2]))
        return ret(st, ("cf", z3.BoolVal(False), ("result", "Err", r[2])))

    def s_from_residual(m, st, args, callee):
        r = m.deref_all(st, args[0])
        return ret(st, ("result", "Err", r[2]))

    def s_split_once(m, st, args, callee):
        return fork(m, st, flags["no_section"], mir2_opt(False, None), mir2_opt(True, ("tuple", (("string", "before"), ("string", "section")))))

    def s_opaque(m, st, args, callee):
        return ret(st, ("opaque",))

    def s_toml(m, st, args, callee):
        cfg = ("struct", (inp["default"], ("vec", tuple(inp["locales"])),
                          mir2_opt(True, ("vec", tuple(inp["namespaces"]))) if inp["namespaces"] is not None else mir2_opt(False, None),
                          ("opaque",), ("opaque",), ("opaque",)))
        return fork(m, st, flags["toml_fails"], ("result", "Err", ("tomlerror",)), ("result", "Ok", cfg))

    def s_iter(m, st, args, callee):
        v = m.deref_all(st, args[0])
        if v[0] not in ("vec", "slice"):
            raise Unsupported("iter over %r" % (v[0],))
        return ret(st, ("iter", tuple(v[1]), 0))

    def s_position(m, st, args, callee):
        itp, clos = args
        it = m.deref_all(st, itp)
        outs = []
        states = [st]
        for i in range(it[2], len(it[1])):
            nxt = []
            for st0 in states:
                m.frame_counter += 1
                ik = (m.frame_counter, "item")
                st0.mem[ik] = it[1][i]
                for st1, b in m.call_closure(st0, clos, [("ptr", ik, ())]):
                    if m.feasible(st1, b):
                        outs.append((st1.fork(b), mir2_opt(True, z3.BitVecVal(i, 64))))
                    if m.feasible(st1, z3.Not(b)):
                        nxt.append(st1.fork(z3.Not(b)))
            states = nxt
        for st0 in states:
            outs.append((st0, mir2_opt(False, None)))
        return outs

    def s_key_eq(m, st, args, callee):
        a, b = m.deref_all(st, args[0]), m.deref_all(st, args[1])
        return ret(st, a == b if callee.endswith("::eq") else a != b)

    def as_int(v):
        v = z3.simplify(v) if z3.is_expr(v) else v
        if z3.is_bv_value(v):
            return v.as_long()
        raise Unsupported("index is not concrete: %r" % (v,))

    def s_swap(m, st, args, callee):
        p, i, j = args
        v = m.deref_all(st, p)
        items = list(v[1])
        i, j = as_int(i), as_int(j)
        if i >= len(items) or j >= len(items):
            st.obligations.append(("panic", list(st.pc), "swap index out of bounds"))
            return []
        items[i], items[j] = items[j], items[i]
        write_ptr(m, st, p, (v[0], tuple(items)))
        return ret(st, ("unit",))

    def s_len(m, st, args, callee):
        v = m.deref_all(st, args[0])
        return ret(st, z3.BitVecVal(len(v[1]), 64))

    def s_push(m, st, args, callee):
        p, item = args
        v = m.deref_all(st, p)
        write_ptr(m, st, p, ("vec", tuple(v[1]) + (m.deref_all(st, item),)))
        return ret(st, ("unit",))

    def s_clone(m, st, args, callee):
        return ret(st, m.deref_all(st, args[0]))

    def s_set_new(m, st, args, callee):
        return ret(st, ("set", ()))

    def s_set_insert(m, st, args, callee):
        p, item = args
        s = m.deref_all(st, p)
        if s[0] != "set":
            raise Unsupported("insert into %r" % (s[0],))
        item = m.deref_all(st, item)
        fresh = z3.And([x != item for x in s[1]]) if s[1] else z3.BoolVal(True)
        write_ptr(m, st, p, ("set", tuple(s[1]) + (item,)))
        return ret(st, z3.simplify(fresh))

    def s_into_iter(m, st, args, callee):
        v = m.deref_all(st, args[0])
        return ret(st, ("iter", tuple(v[1]), 0))

    def s_next(m, st, args, callee):
        p = args[0]
        it = m.deref_all(st, p)
        if it[2] >= len(it[1]):
            return ret(st, mir2_opt(False, None))
        write_ptr(m, st, p, ("iter", it[1], it[2] + 1))
        return ret(st, mir2_opt(True, it[1][it[2]]))

    def s_get_or_insert_with(m, st, args, callee):
        p, f = args
        o = m.deref_all(st, p)
        if z3.is_true(z3.simplify(o[1])):
            return ret(st, o[2])             # already Some: the payload is the pointer to the set's own cell
        m.frame_counter += 1
        cell = (m.frame_counter, "duplicates_set")
        st.mem[cell] = ("set", ())
        ptr = ("ptr", cell, ())
        write_ptr(m, st, p, mir2_opt(True, ptr))
        return ret(st, ptr)

    def s_as_deref(m, st, args, callee):
        return ret(st, m.deref_all(st, args[0]))

    def s_and_then(m, st, args, callee):
        o, f = args
        if z3.is_false(z3.simplify(o[1])):
            return ret(st, mir2_opt(False, None))
        if not z3.is_true(z3.simplify(o[1])):
            raise Unsupported("and_then on a symbolic option")
        return m.call_fn(m.fn(r"::contain_duplicates\(_1: &\[key::Key\]\)"), [o[2]], st)

    def s_dups(m, st, args, callee):
        return m.call_fn(m.fn(r"::contain_duplicates\(_1: &\[key::Key\]\)"), list(args), st)

    def resolve_slice(m, st, p):
        """-> (getter, setter) over a whole Vec / slice or over a sub-range view of one"""
        v = p
        if isinstance(v, tuple) and v[0] == "subslice":
            base, lo, hi = v[1], v[2], v[3]
            items = list(m.deref_all(st, base)[1])
            kind = m.deref_all(st, base)[0]

            def put(new):
                write_ptr(m, st, base, (kind, tuple(items[:lo] + list(new) + items[hi:])))
            return items[lo:hi], put
        cur = m.deref_all(st, v)
        if cur[0] == "subslice":
            return resolve_slice(m, st, cur)
        return list(cur[1]), (lambda new: write_ptr(m, st, v, (cur[0], tuple(new))))

    def s_index_range(m, st, args, callee):
        p, r = args
        base = p
        cur = m.deref_all(st, p)
        if not (isinstance(r, tuple) and r[0] == "range"):
            raise Unsupported("index with %r" % (r,))
        n = len(cur[1])
        lo = as_int(r[2]["start"]) if "start" in r[2] else 0
        if r[1] in ("RangeToInclusive", "RangeInclusive"):
            hi = as_int(r[2]["end"]) + 1
        elif "end" in r[2]:
            hi = as_int(r[2]["end"])
        else:
            hi = n
        if lo > hi or hi > n:
            return []                    # slice index out of range: a panic path, no return
        return ret(st, ("subslice", base, lo, hi))

    def s_rotate(m, st, args, callee):
        items, put = resolve_slice(m, st, args[0])
        k = as_int(args[1])
        if k > len(items):
            return []
        if callee.endswith("rotate_left"):
            put(items[k:] + items[:k])
        else:
            put(items[len(items) - k:] + items[:len(items) - k]) if items else put(items)
        return ret(st, ("unit",))

    def s_reverse(m, st, args, callee):
        items, put = resolve_slice(m, st, args[0])
        put(items[::-1])
        return ret(st, ("unit",))

    def s_usize_op(m, st, args, callee):
        name = callee.split("::")[-1]
        a, b = [z3.simplify(x) for x in args]
        if name == "saturating_sub":
            return ret(st, z3.simplify(z3.If(z3.UGE(a, b), a - b, z3.BitVecVal(0, 64))))
        if name == "saturating_add":
            return ret(st, z3.simplify(z3.If(z3.BVAddNoOverflow(a, b, False), a + b, z3.BitVecVal(2**64 - 1, 64))))
        if name in ("wrapping_sub", "wrapping_add"):
            return ret(st, z3.simplify(a - b if name == "wrapping_sub" else a + b))
        if name in ("min", "max"):
            return ret(st, z3.simplify(z3.If(z3.ULE(a, b), a, b) if name == "min" else z3.If(z3.UGE(a, b), a, b)))
        raise Unsupported("usize::%s" % name)

    def s_is_empty(m, st, args, callee):
        v = m.deref_all(st, args[0])
        return ret(st, z3.BoolVal(len(v[1]) == 0))

    def s_first_last(m, st, args, callee):
        v = m.deref_all(st, args[0])
        if not v[1]:
            return ret(st, mir2_opt(False, None))
        return ret(st, mir2_opt(True, v[1][0] if callee.endswith("first") else v[1][-1]))

    def s_contains(m, st, args, callee):
        v = m.deref_all(st, args[0])
        x = m.deref_all(st, args[1])
        return ret(st, z3.Or([y == x for y in v[1]]) if v[1] else z3.BoolVal(False))

    def s_insert_at(m, st, args, callee):
        p, i, item = args
        v = m.deref_all(st, p)
        i = as_int(i)
        items = list(v[1])
        if i > len(items):
            return []
        items.insert(i, m.deref_all(st, item))
        write_ptr(m, st, p, ("vec", tuple(items)))
        return ret(st, ("unit",))

    def s_remove_at(m, st, args, callee):
        p, i = args
        v = m.deref_all(st, p)
        i = as_int(i)
        items = list(v[1])
        if i >= len(items):
            return []
        x = items.pop(i)
        write_ptr(m, st, p, ("vec", tuple(items)))
        return ret(st, x)

    summaries = [
        (r"^core::num::<impl usize>::(saturating_sub|saturating_add|wrapping_sub|wrapping_add)$", s_usize_op),
        (r"^(<usize as Ord>|std::cmp|core::cmp)::(min|max)(::<usize>)?$", s_usize_op),
        (r"^(Vec::<key::Key>|core::slice::<impl \[key::Key\]>)::is_empty$", s_is_empty),
        (r"^core::slice::<impl \[key::Key\]>::(first|last)$", s_first_last),
        (r"^core::slice::<impl \[key::Key\]>::contains$", s_contains),
        (r"^Vec::<key::Key>::insert$", s_insert_at),
        (r"^Vec::<key::Key>::(remove|swap_remove)$", s_remove_at),
        (r"^<Vec<key::Key> as Index(Mut)?<std::ops::Range\w*(<usize>)?>>::index(_mut)?$", s_index_range),
        (r"^core::slice::<impl \[key::Key\]>::rotate_(left|right)$", s_rotate),
        (r"^core::slice::<impl \[key::Key\]>::reverse$", s_reverse),
        (r"^PathBuf::(push::<&str>|pop)$", s_unit),
        (r"^std::fs::read_to_string::<", s_read),
        (r"^std::result::Result::<.*>::map_err::<", s_map_err),
        (r"as Try>::branch$", s_branch),
        (r"as FromResidual<.*>>::from_residual$", s_from_residual),
        (r"^<std::string::String as Deref>::deref$", s_ident),
        (r"^core::str::<impl str>::split_once::<&str>$", s_split_once),
        (r"^core::str::<impl str>::chars$", s_opaque),
        (r"as Iterator>::(filter|chain)::<", s_opaque),
        (r"as Iterator>::collect::<std::string::String>$", s_opaque),
        (r"^toml::from_str::<ConfigFile>$", s_toml),
        (r"^<Vec<key::Key> as Deref(Mut)?>::deref(_mut)?$", s_ident),
        (r"^core::slice::<impl \[key::Key\]>::iter$", s_iter),
        (r"^<std::slice::Iter<'_, key::Key> as Iterator>::position::<", s_position),
        (r"as PartialEq(<.*>)?>::(eq|ne)$", s_key_eq),
        (r"^core::slice::<impl \[key::Key\]>::swap$", s_swap),
        (r"^Vec::<key::Key>::len$", s_len),
        (r"^Vec::<key::Key>::push$", s_push),
        (r"^<key::Key as Clone>::clone$", s_clone),
        (r"^BTreeSet::<&?key::Key>::new$", s_set_new),
        (r"^BTreeSet::<&?key::Key>::insert$", s_set_insert),
        (r"^<&\[key::Key\] as IntoIterator>::into_iter$", s_into_iter),
        (r"^<std::slice::Iter<'_, key::Key> as Iterator>::next$", s_next),
        (r"^std::option::Option::<BTreeSet<key::Key>>::get_or_insert_with::<", s_get_or_insert_with),
        (r"^std::option::Option::<Vec<key::Key>>::as_deref$", s_as_deref),
        (r"^std::option::Option::<&\[key::Key\]>::and_then::<", s_and_then),
        (r"^ConfigFile::contain_duplicates$", s_dups),
        (r"as Into<Box<parse_locales::error::Error>>>::into$", s_ident),
    ]
    return M19(mir, summaries, unroll=12, max_paths=5000), flags


def mir2_opt(has, v):
    return ("opt", z3.BoolVal(bool(has)) if isinstance(has, bool) else has, v)


def distinct(xs):
    return z3.And([a != b for a, b in itertools.combinations(xs, 2)]) if len(xs) > 1 else z3.BoolVal(True)


def count(xs, x):
    return z3.Sum([z3.If(y == x, 1, 0) for y in xs]) if xs else z3.IntVal(0)


def decide(mir, n, m_ns, timeout_ms=30000):
    d = z3.Const("default", KEY)
    L = [z3.Const("locale_%d" % i, KEY) for i in range(n)]
    N = None if m_ns is None else [z3.Const("namespace_%d" % i, KEY) for i in range(m_ns)]
    inp = {"default": d, "locales": L, "namespaces": N}
    mach, flags = build(mir, inp)
    fn = mach.fn(r"^fn cfg_file::<impl at [^>]*>::new\(_1: &mut PathBuf\)")
    st = mir2.St()
    mach.frame_counter += 1
    pk = (mach.frame_counter, "pathbuf")
    st.mem[pk] = ("pathbuf",)
    outs = mach.call_fn(fn, [("ptr", pk, ())], st)
    res = {"n_locales": n, "n_namespaces": m_ns, "paths": len(outs), "status": "unsat", "solver_checks": 0, "solver_s": 0.0}
    if not outs:
        raise Unsupported("no path")
    listed = z3.Or([x == d for x in L]) if L else z3.BoolVal(False)
    Lp = L + [d]                                      # with the default appended; only meaningful when it was not listed
    dupL = z3.If(listed, z3.Not(distinct(L)), z3.Not(distinct(Lp)))
    dupN = z3.Not(distinct(N)) if N else z3.BoolVal(False)
    env_fail = z3.Or(flags["io_fails"], flags["no_section"], flags["toml_fails"])
    seen = {"ok": False, "dupl": False, "dupn": False, "env": False}
    for st1, v in outs:
        v = mach.deref_all(st1, v)
        if not (isinstance(v, tuple) and v[0] == "result"):
            raise Unsupported("new returned %r" % (v,))
        if v[1] == "Ok":
            cfg = v[2]
            out_l = list(cfg[1][1][1])
            out_n = cfg[1][2]
            claims = [z3.Not(env_fail), z3.Not(dupL), z3.Not(dupN), cfg[1][0] == d]
            if not out_l:
                claims.append(z3.BoolVal(False))
            else:
                claims.append(out_l[0] == d)
                univ = L + [d]
                for x in univ:
                    claims.append(count(out_l, x) == z3.If(listed, count(L, x), count(Lp, x)))
                claims.append(distinct(out_l))
            if N is None:
                claims.append(z3.Not(out_n[1]) if z3.is_expr(out_n[1]) else z3.BoolVal(False))
            else:
                got_n = list(out_n[2][1])
                claims.append(z3.BoolVal(len(got_n) == len(N)))
                claims += [a == b for a, b in zip(got_n, N)]
            claim = z3.And(claims)
            kind = "ok"
        else:
            e = v[2]
            name = e[1] if isinstance(e, tuple) and e[0] == "error" else e[0]
            if name == "DuplicateLocalesInConfig":
                claim, kind = z3.And(z3.Not(env_fail), dupL), "dupl"
            elif name == "DuplicateNamespacesInConfig":
                claim, kind = z3.And(z3.Not(env_fail), z3.Not(dupL), dupN), "dupn"
            elif name in ("ManifestNotFound", "ConfigNotPresent", "ConfigFileDeser"):
                claim, kind = env_fail, "env"
            else:
                raise Unsupported("error value %r" % (e,))
        s = z3.Solver()
        s.set("timeout", timeout_ms)
        s.add(st1.pc)
        s.add(z3.Not(claim))
        t0 = time.time()
        r = second.check(s, 'C19 path query')
        res["solver_s"] += time.time() - t0
        res["solver_checks"] += 1
        if r == z3.sat:
            mdl = s.model()
            res["status"] = "sat"
            res["model"] = {"default": mdl.eval(d, model_completion=True).as_long(), "locales": [mdl.eval(x, model_completion=True).as_long() for x in L],
                            "namespaces": None if N is None else [mdl.eval(x, model_completion=True).as_long() for x in N],
                            "env": {k: z3.is_true(mdl.eval(f, model_completion=True)) for k, f in flags.items()}, "code_result": kind}
            break
        if r == z3.unknown:
            res["status"] = "unknown"
            break
        tw = z3.Solver()
        tw.add(st1.pc)
        if tw.check() == z3.sat:
            seen[kind] = True
    # completeness of the case split: every input is covered by some path (no silent `dead` path)
    if res["status"] == "unsat":
        s = z3.Solver()
        s.add(z3.Not(z3.Or([z3.And(st1.pc) if st1.pc else z3.BoolVal(True) for st1, _ in outs])))
        if second.check(s, 'C19 coverage query', True) != z3.unsat:
            res["status"] = "sat"
            res["model"] = {"note": "some input reaches no return (panic / unwinding path)", "model": str(s.model())[:400]}
        res["solver_checks"] += 1
    res["kinds_reached"] = seen
    res["mir_fns"] = sorted(mach.mir_fns_run)
    res["calls"] = sorted(mach.calls_seen)
    res["solver_s"] = round(res["solver_s"], 3)
    if mach.unwinding:
        res["status"] = "unknown"
        res["note"] = "loop bound reached"
    return res


# ------------------------------------------------------------------------------------------ the serde visitor
FIELDS = ["Default", "Locales", "Namespaces", "LocalesDir", "TranslationsUri", "Extensions", "Unknown"]


def decide_visit(mir, script, n, e, timeout_ms=30000):
    """CfgFileVisitor::visit_map on a map whose keys arrive as `script` (a list of field names, in order); values are
    symbolic: default d, n listed locales, 1 namespace, e pairs in `inherits`."""
    d = z3.Const("default", KEY)
    L = [z3.Const("locale_%d" % i, KEY) for i in range(n)]
    E = [(z3.Const("inherits_key_%d" % i, KEY), z3.Const("inherits_value_%d" % i, KEY)) for i in range(e)]
    value_of = {"Default": d, "Locales": ("vec", tuple(L)), "Namespaces": ("vec", (z3.Const("namespace_0", KEY),)),
                "LocalesDir": ("string", "dir"), "TranslationsUri": ("string", "uri"),
                "Extensions": ("map", tuple(("tuple", (k, v)) for k, v in E))}
    mach, _flags = build(mir, {"default": d, "locales": L, "namespaces": None})
    pos = {"i": 0}

    def ret(st, v):
        return [(st, v)]

    def s_next_key(m, st, args, callee):
        i = st.mem.get(("script_pos",), 0)
        if i >= len(script):
            return ret(st, ("result", "Ok", mir2_opt(False, None)))
        st.mem[("script_pos",)] = i + 1
        return ret(st, ("result", "Ok", mir2_opt(True, ("enum", FIELDS.index(script[i]), ()))))

    def s_next_value(m, st, args, callee):
        i = st.mem.get(("script_pos",), 0) - 1
        if i < 0 or script[i] == "Unknown":
            raise Unsupported("next_value without a key")
        return ret(st, ("result", "Ok", value_of[script[i]]))

    def s_deser_field(m, st, args, callee):
        return m.call_fn(m.fn(r"::visit_map::deser_field\(_1: &mut std::option::Option<T>"), list(args), st)

    def s_replace(m, st, args, callee):
        p, v = args
        old = m.deref_all(st, p)
        write_ptr(m, st, p, mir2_opt(True, v))
        return ret(st, old)

    def s_is_some(m, st, args, callee):
        o = m.deref_all(st, args[0])
        return ret(st, o[1])

    def s_serde_err(kind):
        def f(m, st, args, callee):
            return ret(st, ("serde_err", kind))
        return f

    def s_opaque(m, st, args, callee):
        return ret(st, ("opaque",))

    def s_map_default(m, st, args, callee):
        o = args[0]
        if z3.is_true(z3.simplify(o[1])):
            return ret(st, o[2])
        return ret(st, ("map", ()))

    def s_map_iter(m, st, args, callee):
        v = m.deref_all(st, args[0])
        if v[0] != "map":
            raise Unsupported("iteration over %r" % (v[0],))
        return ret(st, ("iter", tuple(v[1]), 0))

    def s_iter_next(m, st, args, callee):
        p = args[0]
        it = m.deref_all(st, p)
        if it[2] >= len(it[1]):
            return ret(st, mir2_opt(False, None))
        write_ptr(m, st, p, ("iter", it[1], it[2] + 1))
        return ret(st, mir2_opt(True, it[1][it[2]]))

    def s_contains_key(m, st, args, callee):
        v = m.deref_all(st, args[0])
        k = m.deref_all(st, args[1])
        return ret(st, z3.Or([p[1][0] == k for p in v[1]]) if v[1] else z3.BoolVal(False))

    def s_fn_call(m, st, args, callee):
        clos, tup = args
        tup = m.deref_all(st, tup)
        return m.call_closure(st, clos, list(tup[1]))

    def s_opt_unwrap_or(m, st, args, callee):
        return ret(st, ("opaque",))

    extra = [
        (r"^<A as MapAccess<'_>>::next_key::<cfg_file::Field>$", s_next_key),
        (r"^<A as MapAccess<'_>>::next_value::<T>$", s_next_value),
        (r"visit_map::deser_field::<", s_deser_field),
        (r"^std::option::Option::<T>::replace$", s_replace),
        (r"^std::option::Option::<T>::is_some$", s_is_some),
        (r"as serde::de::Error>::duplicate_field$", s_serde_err("duplicate_field")),
        (r"as serde::de::Error>::missing_field$", s_serde_err("missing_field")),
        (r"as serde::de::Error>::custom::<", s_serde_err("custom")),
        (r"^core::fmt::rt::Argument::<'_>::new_debug::<", s_opaque),
        (r"^Arguments::<'_>::new::<", s_opaque),
        (r"^(format|must_use::<std::string::String>)$", s_opaque),
        (r"^std::option::Option::<BTreeMap<key::Key, key::Key>>::unwrap_or_default$", s_map_default),
        (r"^<&BTreeMap<key::Key, key::Key> as IntoIterator>::into_iter$", s_map_iter),
        (r"^<std::collections::btree_map::Iter<'_, key::Key, key::Key> as Iterator>::next$", s_iter_next),
        (r"^BTreeMap::<key::Key, key::Key>::contains_key::<key::Key>$", s_contains_key),
        (r"^<\{closure@[^}]*\} as Fn<\(&key::Key,\)>>::call$", s_fn_call),
        (r"^std::option::Option::<std::string::String>::map::<Cow", s_opaque),
        (r"^std::option::Option::<Cow<'_, str>>::unwrap_or$", s_opt_unwrap_or),
    ]
    mach.summaries = extra + mach.summaries
    fn = mach.fn(r"::visit_map\(_1: CfgFileVisitor, _2: A\)")
    st = mir2.St()
    mach.frame_counter += 1
    mk = (mach.frame_counter, "map_access")
    st.mem[mk] = ("mapaccess",)
    outs = mach.call_fn(fn, [("unit",), ("mapaccess",)], st)
    res = {"script": script, "n_locales": n, "n_inherits": e, "paths": len(outs), "status": "unsat", "solver_checks": 0, "solver_s": 0.0}
    if not outs:
        raise Unsupported("no path")
    known = [f for f in script if f != "Unknown"]
    dup_field = len(set(known)) != len(known)
    # serde stops at the first duplicate; before that every field seen so far is fine
    missing = ("Default" not in known) or ("Locales" not in known)
    has_ext = "Extensions" in known
    is_loc = lambda x: z3.Or([x == y for y in L] + [x == d])
    bad_ext = z3.Or([z3.Or(z3.Not(is_loc(k)), z3.Not(is_loc(v))) for k, v in E]) if (has_ext and E) else z3.BoolVal(False)
    dflt_inherits = z3.Or([k == d for k, _ in E]) if (has_ext and E) else z3.BoolVal(False)
    for st1, v in outs:
        v = mach.deref_all(st1, v)
        if not (isinstance(v, tuple) and v[0] == "result"):
            raise Unsupported("visit_map returned %r" % (v,))
        if v[1] == "Ok":
            cfg = v[2]
            if dup_field or missing:
                claim = z3.BoolVal(False)
            else:
                got_l = list(cfg[1][1][1])
                claim = z3.And([z3.Not(bad_ext), z3.Not(dflt_inherits), cfg[1][0] == d, z3.BoolVal(len(got_l) == len(L))] + [a == b for a, b in zip(got_l, L)])
                ext = cfg[1][5]
                if has_ext:
                    claim = z3.And(claim, z3.BoolVal(ext[0] == "map" and len(ext[1]) == len(E)))
        else:
            kind = v[2][1] if isinstance(v[2], tuple) and v[2][0] == "serde_err" else None
            if kind == "duplicate_field":
                claim = z3.BoolVal(dup_field)
            elif kind == "missing_field":
                claim = z3.BoolVal(missing and not dup_field)
            elif kind == "custom":
                claim = z3.And(z3.BoolVal(not dup_field and not missing), z3.Or(bad_ext, dflt_inherits))
            else:
                raise Unsupported("visit_map error %r" % (v[2],))
        sol = z3.Solver()
        sol.set("timeout", timeout_ms)
        sol.add(st1.pc)
        sol.add(z3.Not(claim))
        t0 = time.time()
        r = second.check(sol, 'C19 path query')
        res["solver_s"] += time.time() - t0
        res["solver_checks"] += 1
        if r == z3.sat:
            # prefer a counterexample whose listed locales are distinct: it is the one a manifest can show
            sol.push()
            sol.add(distinct(L))
            if sol.check() != z3.sat:
                sol.pop()
                sol.check()
            mdl = sol.model()
            res["status"] = "sat"
            res["model"] = {"visitor": True, "script": script, "default": mdl.eval(d, model_completion=True).as_long(),
                            "locales": [mdl.eval(x, model_completion=True).as_long() for x in L],
                            "inherits": [[mdl.eval(k, model_completion=True).as_long(), mdl.eval(vv, model_completion=True).as_long()] for k, vv in E],
                            "code_result": v[1] if v[1] == "Ok" else str(v[2])}
            break
        if r == z3.unknown:
            res["status"] = "unknown"
            break
    if res["status"] == "unsat":
        sol = z3.Solver()
        sol.add(z3.Not(z3.Or([z3.And(st1.pc) if st1.pc else z3.BoolVal(True) for st1, _ in outs])))
        res["solver_checks"] += 1
        if second.check(sol, 'C19 coverage query', True) != z3.unsat:
            res["status"] = "sat"
            res["model"] = {"note": "some input reaches no return (panic path)"}
    res["mir_fns"] = sorted(mach.mir_fns_run)
    res["calls"] = sorted(mach.calls_seen)
    res["solver_s"] = round(res["solver_s"], 3)
    if mach.unwinding:
        res["status"] = "unknown"
    return res


def visit_scripts(tier):
    base = [["Default", "Locales"], ["Locales", "Default"], ["Default"], ["Locales"], [],
            ["Default", "Locales", "Extensions"], ["Extensions", "Locales", "Default"], ["Default", "Extensions", "Locales"],
            ["Unknown", "Default", "Unknown", "Locales", "Unknown"], ["Default", "Locales", "Namespaces", "LocalesDir", "TranslationsUri", "Extensions"],
            ["Default", "Default", "Locales"], ["Default", "Locales", "Locales"], ["Default", "Locales", "Extensions", "Extensions"],
            ["Default", "Locales", "Namespaces", "Namespaces"], ["Extensions"], ["Default", "Locales", "LocalesDir", "LocalesDir"]]
    if tier != "quick":
        for perm in itertools.permutations(["Default", "Locales", "Extensions", "Unknown"]):
            base.append(list(perm))
    return base


# ------------------------------------------------------------------------------------------ native side
def write_manifest(d, default, locales, namespaces, inherits=None, extra_before="", extra_fields=""):
    os.makedirs(d, exist_ok=True)
    lines = ["[package]", 'name = "p"', 'version = "0.1.0"', extra_before, "[package.metadata.leptos-i18n]"]
    if default is not None:
        lines.append("default = %s" % json.dumps(default))
    if locales is not None:
        lines.append("locales = %s" % json.dumps(locales))
    if namespaces is not None:
        lines.append("namespaces = %s" % json.dumps(namespaces))
    if inherits:
        lines.append("inherits = { %s }" % ", ".join("%s = %s" % (json.dumps(k), json.dumps(v)) for k, v in inherits.items()))
    lines.append(extra_fields)
    with open(os.path.join(d, "Cargo.toml"), "w") as f:
        f.write("\n".join(lines) + "\n")


def native_cfg(d):
    p = subprocess.run([hostrun.HOST_BIN, "cfg", d], capture_output=True, text=True, env=hostrun.ENV)
    return json.loads(p.stdout)


def expected_cfg(default, locales, namespaces, inherits):
    """The statement of C19 on a concrete configuration -> ("ok", locales_set) | ("err",)"""
    if default is None or locales is None:
        return ("err",)
    full = list(locales) + ([default] if default not in locales else [])
    if len(set(full)) != len(full):
        return ("err",)
    if namespaces is not None and len(set(namespaces)) != len(namespaces):
        return ("err",)
    for k, v in (inherits or {}).items():
        if k not in full or v not in full or k == default:
            return ("err",)
    return ("ok", full)


def native_stage(tier, seed):
    import random
    rng = random.Random(19000 + seed)
    names = ["en", "fr", "de", "pt-BR"]
    work = os.path.join(hostrun.VERIF, "work", "C19")
    if os.path.isdir(work):
        shutil.rmtree(work)
    cases = []
    for n in range(0, 4):
        for locs in itertools.product(names[:3], repeat=n):
            for default in names[:2]:
                cases.append((default, list(locs), None, None, "", ""))
    for ns in ([], ["a"], ["a", "b"], ["a", "a"], ["b", "a", "b"]):
        cases.append(("en", ["en", "fr"], ns, None, "", ""))
        cases.append(("en", ["fr", "fr"], ns, None, "", ""))
    for inh in ({"fr": "en"}, {"fr": "de"}, {"de": "fr", "fr": "de"}, {"en": "fr"}, {"fr": "xx"}, {"xx": "fr"}, {"fr": "fr"}):
        cases.append(("en", ["en", "fr", "de"], None, inh, "", ""))
        cases.append(("en", ["fr", "de"], None, inh, "", ""))          # default not listed
    cases.append((None, ["en"], None, None, "", ""))
    cases.append(("en", None, None, None, "", ""))
    cases.append(("en", ["en", "fr"], None, None, '[dependencies]\nserde = "1"\n[package.metadata.other]\ndefault = "zz"\n', 'unknown-field = 3\nlocales-dir = "./i18n"'))
    rng.shuffle(cases)
    cases = cases[: (120 if tier == "quick" else len(cases))]
    bad = []
    for i, (default, locs, ns, inh, before, fields) in enumerate(cases):
        d = os.path.join(work, "c%03d" % i)
        write_manifest(d, default, locs, ns, inh, before, fields)
        real = native_cfg(d)
        exp = expected_cfg(default, locs, ns, inh)
        ok = (real["ok"] and exp[0] == "ok" and real["locales"][0] == default and sorted(real["locales"]) == sorted(exp[1])
              and real["default"] == default and real["namespaces"] == ns) or (not real["ok"] and exp[0] == "err")
        if not ok:
            bad.append({"dir": d, "config": {"default": default, "locales": locs, "namespaces": ns, "inherits": inh}, "real": real, "expected": list(exp)})
    return len(cases), bad


def replay_model(r):
    names = {}
    pool = ["en", "fr", "de", "es", "it", "pt", "nl"]

    def nm(c):
        if c not in names:
            names[c] = pool[len(names)]
        return names[c]
    m = r["model"]
    if "default" not in m:
        return None, "no concrete configuration in the model"
    if m.get("visitor"):
        # the map the visitor saw, written as a manifest in the same key order
        script = m["script"]
        known = [f for f in script if f != "Unknown"]
        if len(set(known)) != len(known):
            return None, "duplicated keys are rejected by the TOML front end before the visitor sees them"
        default, locs = nm(m["default"]), [nm(x) for x in m["locales"]]
        inh = {nm(k): nm(v) for k, v in m["inherits"]}
        d = os.path.join(hostrun.VERIF, "work", "C19", "model")
        os.makedirs(d, exist_ok=True)
        lines = ["[package]", 'name = "p"', 'version = "0.1.0"', "[package.metadata.leptos-i18n]"]
        for i, f in enumerate(script):
            lines.append({"Default": "default = %s" % json.dumps(default), "Locales": "locales = %s" % json.dumps(locs),
                          "Namespaces": 'namespaces = ["ns"]', "LocalesDir": 'locales-dir = "./locales"', "TranslationsUri": 'translations-path = "x"',
                          "Extensions": "inherits = { %s }" % ", ".join("%s = %s" % (json.dumps(k), json.dumps(v)) for k, v in inh.items()),
                          "Unknown": "unknown-%d = 1" % i}[f])
        with open(os.path.join(d, "Cargo.toml"), "w") as fh:
            fh.write("\n".join(lines) + "\n")
        real = native_cfg(d)
        exp = expected_cfg(default if "Default" in known else None, locs if "Locales" in known else None, ["ns"] if "Namespaces" in known else None, inh if "Extensions" in known else None)
        ok = (real["ok"] and exp[0] == "ok" and real["locales"][0] == default and sorted(real["locales"]) == sorted(exp[1])) or (not real["ok"] and exp[0] == "err")
        return (not ok), {"dir": d, "config": {"default": default, "locales": locs, "inherits": inh, "key_order": script}, "real": real, "expected": list(exp)}
    if any(m["env"].values()):
        return None, "the counterexample needs a file-system / TOML failure"
    d = os.path.join(hostrun.VERIF, "work", "C19", "model")
    default, locs = nm(m["default"]), [nm(x) for x in m["locales"]]
    ns = None if m["namespaces"] is None else ["ns_" + nm(x) for x in m["namespaces"]]
    write_manifest(d, default, locs, ns)
    real = native_cfg(d)
    exp = expected_cfg(default, locs, ns, None)
    ok = (real["ok"] and exp[0] == "ok" and real["locales"][0] == default and sorted(real["locales"]) == sorted(exp[1]) and real["namespaces"] == ns) or (not real["ok"] and exp[0] == "err")
    return (not ok), {"dir": d, "config": {"default": default, "locales": locs, "namespaces": ns}, "real": real, "expected": list(exp)}


def files_read_stage():
    """-> (number of projects, mismatches). Each project: <root>/crate/Cargo.toml with a `locales-dir`, the directory it names
    holds en.json / fr.json with the key `marker_<i>`; every other candidate directory holds files that are not JSON."""
    import shutil
    work = os.path.join(report.VERIF, "work", "C19", "files")
    if os.path.isdir(work):
        shutil.rmtree(work)
    spellings = [None, "./locales", "locales", "./i18n", "assets/i18n", "./assets/i18n/", "../shared/locales", "./../shared/locales", ".hidden/loc", "../crate/other"]
    decoys = ["locales", "i18n", "assets/i18n", "shared/locales", "hidden/loc", "crate/other", "config/../tr", "tr", "other", "loc"]
    dirs, meta = [], {}
    for i, sp in enumerate(spellings):
        root = os.path.join(work, "p%d" % i)
        crate = os.path.join(root, "crate")
        os.makedirs(crate)
        right = os.path.normpath(os.path.join(crate, sp if sp is not None else "locales"))
        for d in decoys:
            for base in (crate, root):
                dd = os.path.normpath(os.path.join(base, d))
                if dd != right and not right.startswith(dd + os.sep) and not dd.startswith(right + os.sep):
                    os.makedirs(dd, exist_ok=True)
                    for l in ("en", "fr"):
                        if not os.path.exists(os.path.join(dd, l + ".json")):
                            with open(os.path.join(dd, l + ".json"), "w") as f:
                                f.write("this is a decoy, not JSON")
        os.makedirs(right, exist_ok=True)
        for l in ("en", "fr"):
            with open(os.path.join(right, l + ".json"), "w") as f:
                json.dump({"marker_%d" % i: "v " + l}, f)
        with open(os.path.join(crate, "Cargo.toml"), "w") as f:
            f.write('[package]\nname = "p"\nversion = "0.1.0"\n[package.metadata.leptos-i18n]\ndefault = "en"\nlocales = ["en", "fr"]\n' + ('locales-dir = %s\n' % json.dumps(sp) if sp is not None else ""))
        dirs.append(crate)
        meta[crate] = (sp, i)
    res = hostrun.batch(dirs)
    bad = []
    for d in dirs:
        sp, i = meta[d]
        h = res.get(d) or {}
        if h.get("status") != "ok":
            bad.append({"locales_dir": sp, "dir": d, "what": "loading failed: %s %s" % (h.get("status"), str(h.get("error"))[:200])})
        elif ("marker_%d" % i) not in json.dumps(h):
            bad.append({"locales_dir": sp, "dir": d, "what": "loaded, but the key of the configured directory is not among the keys"})
    return len(dirs), bad


def run(tier, seed):
    prop = "C19"
    t0 = time.time()
    hostrun.build_host()
    try:
        mir = mirsmt.dump_mir("leptos_i18n_parser", "parser.mir")
    except Unsupported as e:
        print("INCONCLUSIVE property=C19 %s" % e)
        return 2
    sizes = [(n, m) for n in range(0, 4) for m in (None, 0, 2)] + [(4, None), (2, 3)]
    if tier != "quick":
        sizes += [(5, None), (4, 3), (3, 4)]
    runs, inconclusive, sat = [], [], []
    for n, m_ns in sizes:
        try:
            r = decide(mir, n, m_ns)
        except Unsupported as e:
            inconclusive.append("%d locales / %s namespaces: UNSUPPORTED %s" % (n, m_ns, e))
            continue
        runs.append(r)
        if r["status"] == "sat":
            sat.append(r)
        elif r["status"] != "unsat":
            inconclusive.append("%d locales / %s namespaces: %s" % (n, m_ns, r["status"]))
    vruns = []
    for script in visit_scripts(tier):
        for n, e in ((2, 1), (1, 2)) if "Extensions" in script else ((2, 0),):
            try:
                r = decide_visit(mir, script, n, e)
            except Unsupported as ex:
                inconclusive.append("visit_map %s: UNSUPPORTED %s" % (script, ex))
                continue
            vruns.append(r)
            if r["status"] == "sat":
                sat.append(r)
            elif r["status"] != "unsat":
                inconclusive.append("visit_map %s: %s" % (script, r["status"]))
    known = report.load_known()
    violations = 0
    replayed = 0
    for r in sat[:2]:
        sig = {"engine": "M", "fn": "ConfigFile::new"}
        k = report.matches(sig, known, prop)
        if k is not None:
            print("KNOWN-FINDING: property=C19 %s" % k.get("description", k["id"]))
            continue
        try:
            ok, info = replay_model(r)
            replayed += 1
        except Exception as e:
            ok, info = None, "native replay failed: %s" % str(e)[-300:]
        path = report.write_replay(prop, "config_%d_%s" % (r["n_locales"], r.get("n_namespaces", "visitor")), dict(r, signature=sig, native=info, how_to_replay="verif-host cfg <dir> on the Cargo.toml written under work/C19/model"))
        if ok:
            print("VIOLATION property=C19 replay=%s" % path)
            print("  %s" % json.dumps(info)[:300])
            violations += 1
        else:
            print("UNCONFIRMED property=C19 model of ConfigFile::new did not reproduce natively (%s) %s" % (str(info)[:200], path))
            inconclusive.append("model did not reproduce natively")
    native = {"configurations": 0, "mismatches": 0}
    if not violations:
        n, bad = native_stage(tier, seed)
        native = {"configurations": n, "mismatches": len(bad)}
        for b in bad[:3]:
            path = report.write_replay(prop, "native_%d" % (violations + 1), dict(b, note="found by the concrete stage (real ConfigFile::new on a written Cargo.toml), not by the solver"))
            print("VIOLATION property=C19 replay=%s" % path)
            print("  config=%s real=%s" % (json.dumps(b["config"]), json.dumps(b["real"])[:200]))
            violations += 1
    # which files are read (third sentence, concrete): `locales-dir` spellings, the right directory holds the marked key,
    # decoy directories a trimmed / re-rooted spelling would reach hold invalid JSON
    files_stage = {"projects": 0, "mismatches": 0}
    if not violations:
        try:
            bad = files_read_stage()
            files_stage = {"projects": bad[0], "mismatches": len(bad[1])}
            for b in bad[1][:2]:
                path = report.write_replay(prop, "files_%d" % (violations + 1), dict(b, note="found by the concrete stage (real parse_locales on a written project), not by the solver"))
                print("VIOLATION property=C19 replay=%s" % path)
                print("  locales-dir = %r: %s" % (b["locales_dir"], b["what"][:200]))
                violations += 1
        except Exception as e:
            inconclusive.append("files-read stage failed: %s" % str(e)[-200:])
    wall = time.time() - t0
    so, so_problems = second.verdict()
    for pr in so_problems:
        inconclusive.append("second opinion: " + pr)
    report.write_evidence(prop, tier, seed, "model_checking", {
        "evaluations": sum(r["paths"] for r in runs + vruns) or 1, "distinct_nontrivial": max(2, len(runs) + len(vruns)),
        "rule": "one symbolic execution of ConfigFile::new per (number of listed locales, namespaces absent / number of namespaces); every MIR path is one evaluation, its result is checked against the statement by z3 for all values of the names; a final query checks that the paths cover every input",
        "samples": [{k: v for k, v in r.items() if k not in ("calls", "mir_fns")} for r in runs[:3]] or [{"note": "none"}],
        "states": sum(r["paths"] for r in runs) or 1, "transitions": sum(r.get("solver_checks", 0) for r in runs) or 1,
        "traces_validated_against_impl": replayed + native["configurations"] + files_stage["projects"], "native_stage": native, "files_read_stage": dict(files_stage, what="10 spellings of locales-dir (absent, ./x, x, nested, ../sibling, hidden directory, ..) with decoy directories: the real parser must load the files of the configured directory"),
        "runs": [{k: v for k, v in r.items() if k not in ("calls", "mir_fns")} for r in runs],
        "visitor_runs": [{k: v for k, v in r.items() if k not in ("calls", "mir_fns")} for r in vruns],
        "solver": "z3 %s" % z3.get_version_string(), "solver_s": round(sum(r.get("solver_s", 0) for r in runs), 3),
        "functions_encoded": sorted({f for r in runs + vruns for f in r.get("mir_fns", [])}),
        "mir_calls_summarised": sorted({c for r in runs + vruns for c in r.get("calls", [])}),
        "bounds": "locale lists of 0..4 (thorough 5) symbolic names, namespaces absent or lists of 0, 2, 3 (thorough 4) symbolic names, default symbolic; names are 8-bit codes compared for equality only. Outside the solver's part: CfgFileVisitor::visit_map (missing fields, `inherits` validation, unknown fields), the TOML front end, which files are read (locales-dir, extensions): the concrete stage runs the real ConfigFile::new on written manifests for those.",
        "second_opinion": so,
        "inconclusive": inconclusive,
    }, wall, [
        "std::fs::read_to_string, str::split_once on the section marker and toml::from_str::<ConfigFile> are summaries: each either fails or succeeds; on success the configuration is the symbolic one",
        "Key equality is equality of the names (Key: PartialEq compares `name`)",
        "BTreeSet insert returns `not already present`; Vec / slice operations (iter, position with the closure run from MIR, swap, len, push) have their std meaning",
        "native stage: verif-host cfg <dir> = the real ConfigFile::new; expectation computed from the statement (default first, default added when unlisted, duplicates / unknown or default-inheriting `inherits` entries / missing fields rejected, unknown fields and the rest of the manifest ignored)",
    ], violations)
    runs_all = runs + vruns
    print("property=C19 tier=%s runs=%d paths=%d sat=%d inconclusive=%d native=%s wall_s=%.1f" % (tier, len(runs_all), sum(r["paths"] for r in runs_all), len(sat), len(inconclusive), native, wall))
    if violations:
        return 1
    for i in inconclusive[:8]:
        print("INCONCLUSIVE property=C19 %s" % i)
    if inconclusive or not runs:
        return 2
    return 0


if __name__ == "__main__":
    sys.exit(run(os.environ.get("VERIF_TIER", "quick"), int(os.environ.get("VERIF_SEED", "0"))))
