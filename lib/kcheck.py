"""Fold Kani results into a property's verdict and evidence."""
import json
import os

import kani_run
import report


def finish(prop, run, witnesses, known_role=None, bounds=None, functions=None, stubs=(), assumptions=()):
    """-> (rc, coverage dict). rc: 0 ok, 1 violation (printed), 2 inconclusive."""
    res, summary = run.finish()
    rc = 0
    failed = [h for h, r in res.items() if r == "failed" and h not in witnesses]
    unknown = [h for h, r in res.items() if r == "unknown"]
    vacuous = [w for w in witnesses if res.get(w) != "failed"]
    known = report.load_known()
    violations = []
    played = 0
    for h in failed:
        sig = {"engine": "K", "crate": run.crate, "harness": h}
        k = report.matches(sig, known, prop)
        if k is not None:
            print("KNOWN-FINDING: property=%s %s" % (prop, k.get("description", k["id"])))
            continue
        if violations or played >= 2:
            # one natively reproduced counterexample is enough to report; the other failing harnesses are listed in evidence
            print("NOTE property=%s kani harness %s also failed (not replayed)" % (prop, h))
            continue
        played += 1
        ok, path, log = kani_run.playback(run.crate, h, os.path.join(report.VERIF, "work", "replays", prop))
        rp = report.write_replay(prop, "kani_%s_%s" % (run.crate, h), {"harness": h, "crate": run.crate, "playback_crate": path,
                                                                         "reproduced_natively": ok, "log": log,
                                                                         "how_to_replay": "cd %s && cargo kani playback -Z concrete-playback" % path})
        if ok:
            print("VIOLATION property=%s replay=%s" % (prop, rp))
            print("  kani harness %s::%s failed and its counterexample reproduces natively" % (run.crate, h))
            violations.append(h)
            rc = 1
        else:
            print("UNCONFIRMED property=%s kani harness %s failed but the counterexample did not reproduce natively (%s)" % (prop, h, rp))
            if rc == 0:
                rc = 2
    if rc != 1 and (unknown or vacuous or summary["timed_out"]):
        rc = 2
        for h in unknown:
            print("INCONCLUSIVE property=%s kani harness %s: no verdict (timeout / out of memory / build error) %s" % (prop, h, summary["errors"]))
        for w in vacuous:
            print("INCONCLUSIVE property=%s vacuity witness %s did not fail" % (prop, w))
        if summary["log_tail"]:
            print(summary["log_tail"])
    cov = {
        "engine": "Kani 0.68 / CBMC 6.11 (cadical)",
        "crate": run.crate,
        "harnesses": res,
        "harnesses_successful": sum(1 for h, r in res.items() if r == "success"),
        "witnesses_failing_as_required": [w for w in witnesses if res.get(w) == "failed"],
        "wall_s": summary["wall_s"], "solver_s": summary["solver_s"], "cmd": summary["cmd"],
        "bounds": bounds, "functions_encoded": functions, "stubs": list(stubs), "assumptions": list(assumptions),
        "violations": violations,
    }
    return rc, cov


def merge_evidence(prop, key, cov, extra_violations=0):
    p = os.path.join(report.EVIDENCE, prop + ".json")
    with open(p) as f:
        ev = json.load(f)
    ev["coverage"][key] = cov
    ev["violations"] = int(ev.get("violations", 0)) + int(extra_violations)
    with open(p, "w") as f:
        json.dump(ev, f, indent=1, ensure_ascii=False, default=str)
