"""Property id -> check function."""
import json

import gcheck
import suites


def c01(tier, seed):
    return gcheck.run_property(
        "C01", tier, seed, suites.c01_cases(tier, seed), "reference",
        functions_encoded=["generated into_view of every builder", "generated Display::fmt of every <key>Display",
                           "generated build_string/build_display", "generated const literal accessors",
                           "generated string tables (TranslationUnit::STRINGS) and __get_<loc>_translations__ chain"],
        bounds="projects: <=3 locales (thorough: one with 20), 6 keys per file, interpolation shapes over text/var/component up to length 3 depth 2 (thorough: length 4 depth 3) incl. same-name nesting, variable adjacent to tag, text after last tag, three components; literals of every JSON type; subkeys depth 2; 2 namespaces; whitespace / escape / key-order variants. Outside: projects beyond this grammar.")


CHECKS = {"C01": c01}


def replay(prop, path):
    with open(path) as f:
        j = json.load(f)
    print(json.dumps(j, indent=1, ensure_ascii=False)[:4000])
    return 0


def c03(tier, seed):
    import c03m, kcheck, mirsmt, report, subprocess, hostrun, json
    rc_g = gcheck.run_property(
        "C03", tier, seed, suites.c03_cases(tier, seed), "reference",
        functions_encoded=["generated `Locale::a | Locale::b =>` arms of every accessor (view, Display, literal)"],
        bounds="default + 3 other locales; every `inherits` map over them (125, incl. cycles, self reference, explicit inheritance from the default); presence patterns defined/null/absent for a string, an interpolation, a number, a range and a subkey group with nested group (quick: one pattern per map, thorough: all 27 per map).")
    # kernel: DefaultedLocales::default_of_inner from MIR, for every mapping over n locales
    rc_m = 0
    cov = {"engine": "MIR -> z3 (lib/mirsmt.py), MIR regenerated from the working tree this run"}
    try:
        mir = mirsmt.dump_mir("leptos_i18n_parser", "parser.mir")
        runs = []
        for n in ((3, 5) if tier == "quick" else (2, 3, 4, 5, 6, 7)):
            r = c03m.decide(mir, n)
            runs.append(r)
            if r["status"] == "sat":
                m = r["model"]
                q = {"default": m["default"], "mapping": m["mapping"], "start": m["start"]}
                p = subprocess.run([hostrun.HOST_BIN, "default-of", json.dumps(q)], capture_output=True, text=True)
                path = report.write_replay("C03", "default_of_inner_n%d" % n, {"model": m, "real_result": p.stdout.strip(),
                                           "how_to_replay": "%s default-of '%s'" % (hostrun.HOST_BIN, json.dumps(q))})
                print("VIOLATION property=C03 replay=%s" % path)
                print("  default_of_inner disagrees with the inheritance walk for %s (real result %s)" % (json.dumps(q), p.stdout.strip()))
                rc_m = 1
            elif r["status"] != "unsat" or r["unwinding"] != "unsat" or r["witness_cycle_reaches_default"] != "sat":
                print("INCONCLUSIVE property=C03 MIR kernel n=%d: %s" % (n, r))
                rc_m = max(rc_m, 2)
        cov.update({"functions_encoded": ["leptos_i18n_parser::parse_locales::locale::DefaultedLocales::default_of_inner"],
                    "bounds": "every mapping (partial function locale -> locale) and every start / default locale over n locales, n in %s; loop unrolled n+2 times with an unwinding assertion; `visited` empty on entry (as both callers guarantee)" % [r["n"] for r in runs],
                    "summaries": ["BTreeMap::get -> select on (Array Loc Bool, Array Loc Loc)", "HashSet::insert/contains -> store/select on (Array Loc Bool)"],
                    "runs": runs, "solver_s": round(sum(r["solver_s"] for r in runs), 3)})
    except mirsmt.Unsupported as e:
        print("INCONCLUSIVE property=C03 MIR kernel: %s" % e)
        cov["unsupported"] = str(e)
        rc_m = 2
    kcheck.merge_evidence("C03", "mir_kernel", cov, 1 if rc_m == 1 else 0)
    return 1 if 1 in (rc_g, rc_m) else max(rc_g, rc_m)


RANGE_TYPES = ["i8", "i16", "i32", "i64", "u8", "u16", "u32", "u64", "f32", "f64"]


def c04(tier, seed):
    import kani_run, kcheck, time
    ints = [t for t in RANGE_TYPES if t[0] != "f"]
    dm = ["u8", "i64", "f32"] if tier == "quick" else RANGE_TYPES
    harnesses = ["do_match_" + t for t in dm] + ["end_bound_" + t for t in ints] + ["from_" + t for t in ints] + ["witness_do_match_reaches_assert"]
    krun = kani_run.KaniRun("ranges", harnesses, jobs=12, timeout_s=1500 if tier == "quick" else 3600)
    rc_g = gcheck.run_property(
        "C04", tier, seed, suites.c04_cases(tier, seed), "reference",
        functions_encoded=["generated `match count {..}` (integers) and `if` chains (floats) of both back-ends",
                           "parse-time branch selection seen through foreign keys with a literal count"],
        bounds="all 10 numeric types + default i32; <=4 branches + fallback, <=3 alternatives per branch, bounds from type extremes and small values; counts: every value of the type (bit-vector / IEEE float incl. NaN, inf); both syntaxes.")
    rc_k, cov = kcheck.finish(
        "C04", krun, ["witness_do_match_reaches_assert"],
        bounds="Range::<T>::do_match: every Range value of shape Exact | Bounds{start: Option, end: Included|Excluded|Unbounded} | Fallback | Multiple of <=2 of those, every bound and every count of type T (unwind 3, unwinding assertions on); quick tier: T in {u8, i64, f32}, thorough: all 10 types. range_end_bound / from_i64 / from_u64: every input, 8 integer types.",
        functions=["leptos_i18n_parser::parse_locales::ranges::Range::<T>::do_match (via verif_do_match)", "RangeNumber::range_end_bound", "RangeNumber::from_i64 / from_u64 / from_f64"],
        assumptions=["float bounds and counts are finite: a NaN/inf bound cannot reach code generation and JSON cannot express a NaN/inf count",
                     "Multiple holds at most 2 alternatives (longer lists outside the claim)"])
    kcheck.merge_evidence("C04", "kani", cov, len(cov["violations"]))
    return max(rc_g, rc_k) if 1 not in (rc_g, rc_k) else 1


def c05(tier, seed):
    return gcheck.run_property(
        "C05", tier, seed, suites.c05_cases(tier, seed), "reference",
        functions_encoded=["generated `match rules.category_for(count)` of both back-ends", "get_plural_rules arguments"],
        bounds="subsets of plural forms with _other, cardinal/ordinal, locales from en fr ru ar pl ja cy; category function uninterpreted (every category for every count/locale).",
        extra_assumptions=["the CLDR category of a count is icu_plurals' answer (used only for literal counts in foreign keys)"])


CHECKS.update({"C03": c03, "C04": c04, "C05": c05})


def c06(tier, seed):
    return gcheck.run_property(
        "C06", tier, seed, suites.c06_cases(tier, seed), "reference",
        functions_encoded=["generated accessors of referencing keys (the substituted value is what the generator emitted)"],
        bounds="targets of every kind (string, numbers, bool, interpolation, component, int/float range, plural, subkey paths, other namespace) x argument kinds (string, numbers, bool, interpolated, nested $t, nested $t with args, component) x reference before/after target in key order; literal and renamed counts; chains of depth 3; references inside plural forms and range branches; null targets with/without inherits; 9 invalid graphs (unresolved, subkey group, 1/2/3-cycles, cycle through an argument).",
        extra_assumptions=["a reference to a key that is absent (not null) from the referencing locale is documented as unsupported: not decided",
                           "the CLDR category of a literal count is icu_plurals' answer"])


CHECKS.update({"C06": c06})


def c02(tier, seed):
    return gcheck.run_property(
        "C02", tier, seed, suites.c02_cases(tier, seed), "pairwise",
        functions_encoded=["generated into_view / Display::fmt / build_string / build_display / literal accessors",
                           "expansions of the real t_macro_inner for td!/t!/tu! x view/string/display (9 flavours) evaluated down into the generated items"],
        bounds="the project families of C01, C03, C04, C05, C06 (sub-sampled in the quick tier); per key: view vs Display vs String vs the nine macro expansions, for every locale / argument / count / category. Scoping: for every nested keys struct S (subkey group, namespace) the generated `<S as LocaleKeys>::from_locale(l)` (what a scoped context / scoped locale builds its keys with) is evaluated and must be the value the accessor chain gives, so a scoped access reads the terms decided above; the type-state plumbing of scope_i18n!/use_i18n_scoped!/scope_locale! in leptos_i18n/src/scopes.rs (same locale signal, Keys type selected by trait dispatch) is library code and trusted.",
        extra_assumptions=["`t!(ctx, ..)` reads the context's current locale: I18nContext::get_keys(ctx) is modelled as Locale::get_keys(locale of ctx)"])


CHECKS.update({"C02": c02})


def c18(tier, seed):
    import c18native, engine_g, hostrun, replay

    def post(cases, stats):
        """native part: real output == direct ICU4X with the declared options, in two evaluation orders"""
        findings = []
        cldr = hostrun.Cldr()
        limit = 3 if tier == "quick" else 40
        done = 0
        total = 0
        for c in cases:
            if done >= limit or c.expect != "ok":
                continue
            h = stats.host_results.get(c.dir)
            if not h or h.get("status") != "ok":
                continue
            try:
                n, bad = c18native.run_project(c, h, cldr)
            except replay.ReplayError as e:
                stats.inconclusive.append((c.tag, "native formatter comparison failed to build/run: %s" % str(e)[-400:]))
                continue
            if n:
                done += 1
                total += n
            for b in bad[:5]:
                findings.append(engine_g.Finding("C18", "native_validation_differs", c, key=b["key"], detail=dict(b, key=b["key"], ns=None,
                                note="real td_string! output vs direct uncached ICU4X call with the declared options, evaluation order %s" % b["order"]),
                                role=c.roles.get((None, tuple(b["key"]))) or c.roles.get("*")))
        stats.side = {"native_formatter_requests": total, "projects": done, "orders": ["declaration order", "reverse order"]}
        cldr.close()
        return findings

    return gcheck.run_property(
        "C18", tier, seed, suites.c18_cases(tier, seed), "reference",
        functions_encoded=["generated calls format_<X>_to_view / _to_formatter of both back-ends (formatter, options, locale argument)"],
        bounds="the six documented formatters x every documented option combination (quick: 60 sampled) x 4 whitespace/order variants of the source x unrecognised values/arguments; formatter inside ranges, plurals, components, through foreign keys. Native side condition (not solver-decided): for 3 (thorough 40) projects the real td_string! output equals a direct uncached ICU4X call with the declared options, in declaration order and in reverse order within one process (formatter cache). Outside: threads; time_length full/long (ICU4X needs a time zone there).",
        extra_assumptions=["documented defaults: number auto; currency short/USD; date medium; time short; list unit/wide",
                           "fmt_<X>(locale, value, options) is uninterpreted for the solver; the native side condition compares with ICU4X itself"],
        post=post, validate=0)


def _c08_extra(case, ns, path, hk, ref):
    import engine_g
    out = []
    proj = case.project
    try:
        vars_, comps, counts = proj.required_args(ns, path)
    except Exception:
        return out
    want = sorted({v.replace("-", "_") for v in vars_} | {c.replace("-", "_") for c in comps})
    got = sorted(hk.get("fields", []))
    if hk["kind"] == "lit":
        got = []
    if want != got:
        out.append(engine_g.Finding("C08", "required_args_differ", case, key=list(path), ns=ns, hk=hk, detail={"required_by_source": want, "builder_fields": got}))
        return out
    bounds = hk.get("bounds", {})
    for name, kinds in counts.items():
        b = " ".join(bounds.get("__%s__" % name.replace("-", "_"), []))
        if len(kinds) != 1:
            continue
        kind = next(iter(kinds))
        if kind == "plural":
            ok = "InterpolatePluralCount" in b
        else:
            ok = "InterpolateRangeCount<%s>" % kind in b
        if not ok:
            out.append(engine_g.Finding("C08", "count_bound_differs", case, key=list(path), ns=ns, hk=hk, detail={"field": name, "declared": kind, "bounds": b}))
    return out


def c08(tier, seed):
    return gcheck.run_property(
        "C08", tier, seed, suites.c08_cases(tier, seed), "reference",
        functions_encoded=["generated builder structs (fields, generic bounds) and accessors of keys whose locales mix value kinds"],
        bounds="3 locales, one key = any triple of kinds from string / interpolation / component / range / plural / number / foreign key renaming the count / foreign key fixing the count / null; 5 count types; plus 2 conflicting projects that must be rejected. Decided: rendered text for all locales and arguments (z3), builder field set == union of syntactic occurrences, count bound == declared type. Outside: that rustc accepts exactly that argument set (typed_builder).",
        extra_key_check=_c08_extra, validate=(12 if tier == "quick" else 80), validate_per_project=True)


CHECKS.update({"C18": c18, "C08": c08})


def c13(tier, seed):
    import c13 as m
    return m.run(tier, seed)


CHECKS.update({"C13": c13})


def c14(tier, seed):
    import c14 as m
    return m.run(tier, seed)


CHECKS.update({"C14": c14})


def c12(tier, seed):
    import c12 as m
    return m.run(tier, seed)


CHECKS.update({"C12": c12})


def c11(tier, seed):
    import c11 as m
    return m.run(tier, seed)


CHECKS.update({"C11": c11})


def c17(tier, seed):
    import c17 as m
    return m.run(tier, seed)


CHECKS.update({"C17": c17})


def c15(tier, seed):
    import c15 as m
    return m.run(tier, seed)


CHECKS.update({"C15": c15})


def c16(tier, seed):
    import c16 as m
    return m.run(tier, seed)


CHECKS.update({"C16": c16})


def c19(tier, seed):
    import c19 as m
    return m.run(tier, seed)


CHECKS.update({"C19": c19})


def c20(tier, seed):
    import c20 as m
    return m.run(tier, seed)


CHECKS.update({"C20": c20})


def c07(tier, seed):
    import c07 as m
    return m.run(tier, seed)


CHECKS.update({"C07": c07})


def c10(tier, seed):
    import c10 as m
    return m.run(tier, seed)


CHECKS.update({"C10": c10})


def c09(tier, seed):
    import c09 as m
    return m.run(tier, seed)


CHECKS.update({"C09": c09})
