"""Property id -> check function."""
import json

import gcheck
import suites


def c01(tier, seed):
    return gcheck.run_property(
        "C01", tier, seed, suites.c01_cases(tier, seed), "reference",
        functions_encoded=["generated into_view of every builder", "generated Display::fmt of every <key>Display",
                           "generated build_string/build_display", "generated const literal accessors",
                           "generated string tables (TranslationUnit::STRINGS) and __get_<loc>_translations__ chain"],
        bounds="projects: <=3 locales (thorough: one with 20), 6 keys per file, interpolation shapes over text/var/component up to length 3 depth 2 (thorough: length 4 depth 3) incl. same-name nesting, variable adjacent to tag, text after last tag, three components; literals of every JSON type; subkeys depth 2; 2 namespaces; whitespace / escape / key-order variants. Outside: projects beyond this grammar.")


CHECKS = {"C01": c01}


def replay(prop, path):
    with open(path) as f:
        j = json.load(f)
    print(json.dumps(j, indent=1, ensure_ascii=False)[:4000])
    return 0
