"""Engine M, second executor: MIR with frames, pointers into frames, in-place mutation and MIR-to-MIR calls.
Forks at every symbolic branch (paths pruned with z3). Values are z3 expressions or immutable python tuples:

  ("struct", (f0, f1, ...))     ("opt", is_some: z3 Bool, payload)     ("ptr", key, path)
  ("vec", (items...))           ("iter", (items...), index)            ("closure", sig, (captures...))
  ("tuple", (a, b))             ("ord", -1|0|1)                        ("loc", name)   ("char", c)
"""
import re

import z3

from mirsmt import Fn, Unsupported, extract_fn, parse_operand, parse_place, split_top

USIZE = 64


class St:
    __slots__ = ("mem", "pc", "obligations", "defs")

    def __init__(self, mem=None, pc=None, obligations=None, defs=None):
        self.mem = mem or {}
        self.pc = pc or []
        self.obligations = obligations or []
        # ids of path-condition entries that are *definitions* of fresh variables introduced by summaries (total
        # functions of their inputs: they never restrict the inputs)
        self.defs = defs or set()

    def fork(self, cond):
        return St(dict(self.mem), self.pc + [cond], list(self.obligations), set(self.defs))

    def define(self, constraints):
        for c in constraints:
            self.pc.append(c)
            self.defs.add(c.get_id())

    def copy(self):
        return St(dict(self.mem), list(self.pc), list(self.obligations), set(self.defs))


def get_path(v, path):
    for i in path:
        if not isinstance(v, tuple):
            raise Unsupported("projection .%s of %r" % (i, v))
        if v[0] == "struct" or v[0] == "tuple":
            v = v[1][i]
        elif v[0] == "opt" and i == 0:
            v = v[2]
        elif v[0] == "closure":
            v = v[2][i]
        elif v[0] == "enum":
            v = v[2][i]
        elif v[0] == "cf" and i == 0:
            v = v[2]
        elif v[0] == "symenum":
            # an enum whose variant is symbolic: ("symenum", discriminant term, payload fields shared by the variants)
            v = v[2][i]
        else:
            raise Unsupported("projection .%s of %s" % (i, v[0]))
    return v


def set_path(v, path, new):
    if not path:
        return new
    i = path[0]
    if v[0] in ("struct", "tuple"):
        items = list(v[1])
        items[i] = set_path(items[i], path[1:], new)
        return (v[0], tuple(items))
    if v[0] == "closure":
        items = list(v[2])
        items[i] = set_path(items[i], path[1:], new)
        return ("closure", v[1], tuple(items)) + tuple(v[3:])
    raise Unsupported("assignment through %s" % v[0])


class Machine:
    def __init__(self, mir, summaries, consts=None, unroll=12, max_paths=20000):
        self.mir = mir
        self.summaries = summaries
        self.consts = consts or {}
        self.unroll = unroll
        self.fn_cache = {}
        self.frame_counter = 0
        self.calls_seen = set()
        self.mir_fns_run = set()
        self.max_paths = max_paths
        self.solver_checks = 0
        self.unwinding = []

    # ------------------------------------------------------------------ functions
    def fn(self, regex):
        if regex not in self.fn_cache:
            self.fn_cache[regex] = Fn(extract_fn(self.mir, regex))
        return self.fn_cache[regex]

    def closure_fn(self, sig, occ=0):
        """Body of the closure written at span `sig`; several closures can share one span (macro expansion):
        the occ-th construction site (in MIR text order of the parent) is the occ-th closure in definition order."""
        key = "closure:%s:%d" % (sig, occ)
        if key not in self.fn_cache:
            found = []
            for l in self.mir.splitlines():
                if l.startswith("fn ") and "{closure#" in l.split("(")[0] and sig in l:
                    name = l.split("(")[0]
                    num = int(re.findall(r"\{closure#(\d+)\}", name)[-1])
                    found.append((num, name))
            found.sort()
            if not found:
                raise Unsupported("no body for closure %s" % sig)
            if occ >= len(found):
                raise Unsupported("closure %s: construction site %d but %d bodies" % (sig, occ, len(found)))
            self.fn_cache[key] = Fn(extract_fn(self.mir, "^" + re.escape(found[occ][1]) + r"\("))
        return self.fn_cache[key]

    # ------------------------------------------------------------------ places
    def resolve(self, st, frame, p):
        """-> (key, path)"""
        k = p[0]
        if k == "local":
            return (frame, p[1]), ()
        if k == "deref":
            v = self.read(st, frame, p[1])
            if isinstance(v, tuple) and v[0] == "ptr":
                return v[1], tuple(v[2])
            # a shared reference to immutable data is modelled as the data itself: give it a cell of its own
            self.frame_counter += 1
            key = (self.frame_counter, "anon")
            st.mem[key] = v
            return key, ()
        if k == "field":
            key, path = self.resolve(st, frame, p[1])
            return key, path + (p[2],)
        if k == "downcast":
            return self.resolve(st, frame, p[1])
        raise Unsupported("place %r" % (p,))

    def read(self, st, frame, p):
        if p[0] == "deref":
            v = self.read(st, frame, p[1])
            if isinstance(v, tuple) and v[0] == "ptr":
                return get_path(self.mem_get(st, v[1]), v[2])
            return v  # reference to plain data is the data
        if p[0] == "field":
            base = self.read(st, frame, p[1])
            if isinstance(base, tuple) and base[0] == "ptr":
                # by-value closure environments are handed over as pointers by call_closure
                base = self.deref_all(st, base)
            return get_path(base, (p[2],))
        if p[0] == "downcast":
            return self.read(st, frame, p[1])
        key, path = self.resolve(st, frame, p)
        return get_path(self.mem_get(st, key), path)

    def mem_get(self, st, key):
        if key not in st.mem:
            raise Unsupported("read of unset %s" % (key,))
        return st.mem[key]

    def write(self, st, frame, p, v):
        key, path = self.resolve(st, frame, p)
        if not path:
            st.mem[key] = v
        else:
            st.mem[key] = set_path(self.mem_get(st, key), path, v)

    # ------------------------------------------------------------------ operands / rvalues
    def operand(self, st, frame, o):
        if o[0] == "place":
            return self.read(st, frame, o[1])
        c = o[1]
        if c in self.consts:
            return self.consts[c]
        if c in ("true", "false"):
            return z3.BoolVal(c == "true")
        m = re.match(r"^(-?\d+)_(usize|u64|u32|u8|isize|i64|i32)$", c)
        if m:
            return z3.BitVecVal(int(m.group(1)), USIZE)
        m = re.match(r"^'(.)'$", c)
        if m:
            return ("char", m.group(1))
        m = re.match(r"^ZeroSized: (\{closure@[^}]*\})$", c)
        if m:
            return ("closure", m.group(1), (), 0)
        if re.search(r"Option::<.*>::None$", c):
            return ("opt", z3.BoolVal(False), None)
        raise Unsupported("constant %r" % c)

    def rvalue(self, st, frame, r, fn=None, stmt=None):
        r = r.strip()
        m = re.match(r"^&(mut |raw const |raw mut )?(.*)$", r)
        if m and not r.startswith("&&"):
            p, rest = parse_place(m.group(2))
            if rest.strip():
                raise Unsupported("rvalue %r" % r)
            key, path = self.resolve(st, frame, p)
            return ("ptr", key, path)
        if r.startswith("discriminant("):
            p, _ = parse_place(r[len("discriminant("):-1])
            return ("discr", self.read(st, frame, p))
        m = re.match(r"^(AddWithOverflow|SubWithOverflow)\((.*)\)$", r)
        if m:
            a, b = [self.operand(st, frame, parse_operand(x)) for x in split_top(m.group(2))]
            if m.group(1) == "AddWithOverflow":
                return ("tuple", (a + b, z3.Not(z3.BVAddNoOverflow(a, b, False))))
            return ("tuple", (a - b, z3.Not(z3.BVSubNoUnderflow(a, b, False))))
        m = re.match(r"^((?:copy|move) .*?) as .* \((?:PointerCoercion|Transmute|PtrToPtr)[^)]*(?:\([^)]*\))?[^)]*\)$", r)
        if m:
            # unsizing / pointer casts do not change the value in this model
            return self.operand(st, frame, parse_operand(m.group(1)))
        if re.match(r"^(std::option::)?Option::<.*>::None$", r):
            return ("opt", z3.BoolVal(False), None)
        m = re.match(r"^(?:std::option::)?Option::<.*>::Some\((.*)\)$", r)
        if m:
            return ("opt", z3.BoolVal(True), self.operand(st, frame, parse_operand(m.group(1))))
        m = re.match(r"^\((.*,.*)\)$", r)
        if m and not r.startswith("(*") and not re.match(r"^\(_\d+", r):
            return ("tuple", tuple(self.operand(st, frame, parse_operand(x)) for x in split_top(m.group(1))))
        m = re.match(r"^\[(.*)\]$", r)
        if m:
            items = [self.operand(st, frame, parse_operand(x)) for x in split_top(m.group(1))] if m.group(1).strip() else []
            return ("slice", tuple(items))
        m = re.match(r"^(Eq|Ne|Lt|Le|Gt|Ge|Add|Sub|BitAnd|BitOr|BitXor)\((.*)\)$", r)
        if m:
            parts = split_top(m.group(2))
            if len(parts) == 2:
                a, b = [self.operand(st, frame, parse_operand(x)) for x in parts]
                op = m.group(1)
                if z3.is_bv(a) and z3.is_bv(b):
                    # (unsigned: the executors only meet usize / u8 / discriminants here)
                    return {"Eq": a == b, "Ne": a != b, "Lt": z3.ULT(a, b), "Le": z3.ULE(a, b), "Gt": z3.UGT(a, b), "Ge": z3.UGE(a, b),
                            "Add": a + b, "Sub": a - b, "BitAnd": a & b, "BitOr": a | b, "BitXor": a ^ b}[op]
                if z3.is_bool(a) and z3.is_bool(b) and op in ("Eq", "Ne", "BitAnd", "BitOr", "BitXor"):
                    return {"Eq": a == b, "Ne": a != b, "BitAnd": z3.And(a, b), "BitOr": z3.Or(a, b), "BitXor": z3.Xor(a, b)}[op]
                raise Unsupported("%s of %r, %r" % (op, a, b))
        m = re.match(r"^Not\((.*)\)$", r)
        if m:
            v = self.operand(st, frame, parse_operand(m.group(1)))
            if z3.is_bool(v):
                return z3.Not(v)
            raise Unsupported("Not of %r" % (v,))
        m = re.match(r"^PtrMetadata\((.*)\)$", r)
        if m:
            v = self.operand(st, frame, parse_operand(m.group(1)))
            return self.length_of(st, v)
        m = re.match(r"^(\{closure@[^}]*\})(?: \{(.*)\})?$", r)
        if m:
            fields = []
            if m.group(2):
                for part in split_top(m.group(2)):
                    _, val = part.split(":", 1)
                    fields.append(self.operand(st, frame, parse_operand(val)))
            occ = 0
            if fn is not None and stmt is not None:
                sites = [l.strip() for l in fn.text.splitlines() if re.search(r"= " + re.escape(m.group(1)), l)]
                sites = list(dict.fromkeys(sites))
                if stmt in sites:
                    occ = sites.index(stmt)
            return ("closure", m.group(1), tuple(fields), occ)
        return self.operand(st, frame, parse_operand(r))

    def deref_all(self, st, v):
        while isinstance(v, tuple) and v[0] == "ptr":
            v = get_path(self.mem_get(st, v[1]), v[2])
        return v

    def length_of(self, st, v):
        v = self.deref_all(st, v)
        if isinstance(v, tuple) and v[0] in ("vec", "slice"):
            return z3.BitVecVal(len(v[1]), USIZE)
        if isinstance(v, tuple) and v[0] == "variants":
            return z3.If(v[1], z3.BitVecVal(1, USIZE), z3.BitVecVal(0, USIZE))
        raise Unsupported("length of %r" % (v,))

    # ------------------------------------------------------------------ feasibility
    def feasible(self, st, cond):
        c = z3.simplify(cond)
        if z3.is_true(c):
            return True
        if z3.is_false(c):
            return False
        s = z3.Solver()
        s.set("timeout", 10000)
        s.add(st.pc)
        s.add(c)
        self.solver_checks += 1
        return s.check() != z3.unsat

    # ------------------------------------------------------------------ execution
    def call_fn(self, fn, args, st):
        """-> [(state, return value)]"""
        self.frame_counter += 1
        frame = self.frame_counter
        if len(args) != len(fn.params):
            raise Unsupported("arity mismatch calling %s" % fn.header)
        for p, a in zip(fn.params, args):
            st.mem[(frame, p)] = a
        self.mir_fns_run.add(fn.header.split("(")[0])
        out = []
        work = [(st, "bb0", {})]
        while work:
            if len(out) + len(work) > self.max_paths:
                raise Unsupported("more than %d paths" % self.max_paths)
            st, bb, visits = work.pop()
            visits = dict(visits)
            visits[bb] = visits.get(bb, 0) + 1
            if visits[bb] > self.unroll:
                self.unwinding.append(list(st.pc))
                continue
            stmts = fn.blocks.get(bb)
            if stmts is None:
                raise Unsupported("no block %s" % bb)
            conts = [(st, None)]
            for s in stmts:
                nxt = []
                for st1, done in conts:
                    if done is not None:
                        nxt.append((st1, done))
                        continue
                    nxt.extend(self.step(fn, frame, st1, s))
                conts = nxt
            for st1, t in conts:
                if t is None:
                    raise Unsupported("block %s fell through" % bb)
                if t[0] == "return":
                    out.append((st1, st1.mem.get((frame, "_0"))))
                elif t[0] == "goto":
                    work.append((st1, t[1], visits))
                elif t[0] == "dead":
                    pass
        return out

    def step(self, fn, frame, st, s):
        """-> [(state, terminator|None)]"""
        if s == "return;":
            return [(st, ("return",))]
        if s in ("unreachable;", "resume;"):
            return [(st, ("dead",))]
        m = re.match(r"^goto -> (bb\d+);$", s)
        if m:
            return [(st, ("goto", m.group(1)))]
        m = re.match(r"^drop\(.*\) -> \[return: (bb\d+).*\];$", s)
        if m:
            return [(st, ("goto", m.group(1)))]
        m = re.match(r"^assert\((!?)(.*?), \".*\) -> \[success: (bb\d+).*\];$", s)
        if m:
            v = self.operand(st, frame, parse_operand(m.group(2)))
            ok = z3.Not(v) if m.group(1) == "!" else v
            st.obligations.append(("assert", list(st.pc), ok))
            return [(st, ("goto", m.group(3)))]
        m = re.match(r"^switchInt\((.*)\) -> \[(.*)\];$", s)
        if m:
            v = self.operand(st, frame, parse_operand(m.group(1)))
            out = []
            taken = []
            for t in [t.strip() for t in m.group(2).split(",")]:
                val, bb = [x.strip() for x in t.split(":")]
                if val == "otherwise":
                    c = z3.And([z3.Not(x) for x in taken]) if taken else z3.BoolVal(True)
                else:
                    c = self.switch_cond(v, int(val))
                    taken.append(c)
                if self.feasible(st, c):
                    out.append((st.fork(z3.simplify(c)), ("goto", bb)))
            return out
        m = re.match(r"^(.*?) = (.*) -> \[return: (bb\d+)(?:, unwind[^\]]*)?\];$", s)
        if m:
            dest_txt, call, ret = m.group(1), m.group(2), m.group(3)
            # char literals that are parentheses would break the matching below
            call = call.replace("')'", "'\x01'").replace("'('", "'\x02'")
            dest, rest = parse_place(dest_txt)
            depth = 0
            k = len(call) - 1
            while k >= 0:
                if call[k] == ")":
                    depth += 1
                elif call[k] == "(":
                    depth -= 1
                    if depth == 0:
                        break
                k -= 1
            callee = call[:k].strip()
            args = [self.operand(st, frame, parse_operand(a.replace("'\x01'", "')'").replace("'\x02'", "'('"))) for a in split_top(call[k + 1:-1])]
            results = self.call(st, callee, args)
            out = []
            for st1, v in results:
                self.write(st1, frame, dest, v)
                out.append((st1, ("goto", ret)))
            return out
        m = re.match(r"^(.*?) = (.*);$", s)
        if m:
            dest, rest = parse_place(m.group(1))
            if rest.strip():
                raise Unsupported("assignment %r" % s)
            self.write(st, frame, dest, self.rvalue(st, frame, m.group(2), fn, s))
            return [(st, None)]
        if s.startswith(("StorageLive", "StorageDead", "nop", "FakeRead", "PlaceMention", "AscribeUserType", "Retag", "Coverage")):
            return [(st, None)]
        raise Unsupported("statement %r" % s)

    def switch_cond(self, v, val):
        if isinstance(v, tuple) and v[0] == "discr":
            o = v[1]
            if isinstance(o, tuple) and o[0] == "opt":
                return o[1] if val == 1 else z3.Not(o[1])
            if isinstance(o, tuple) and o[0] == "cf":      # ControlFlow: Continue = 0, Break = 1
                return o[1] if val == 0 else z3.Not(o[1])
            if isinstance(o, tuple) and o[0] == "enum":
                return z3.BoolVal(o[1] == val)
            if isinstance(o, tuple) and o[0] == "symenum":
                return o[1] == z3.BitVecVal(val, o[1].size())
            raise Unsupported("discriminant of %r" % (o,))
        if z3.is_bool(v):
            return v if val != 0 else z3.Not(v)
        if z3.is_bv(v):
            return v == z3.BitVecVal(val, v.size())
        raise Unsupported("switchInt on %r" % (v,))

    def call(self, st, callee, args):
        self.calls_seen.add(callee)
        for rx, f in self.summaries:
            if re.search(rx, callee):
                return f(self, st, args, callee)
        raise Unsupported("call to %s" % callee)

    def call_closure(self, st, clos, args):
        """clos: ("closure", sig, captures) value (or pointer to one). The closure body gets `&mut closure` as _1."""
        if isinstance(clos, tuple) and clos[0] == "ptr":
            ptr = clos
            cv = self.deref_all(st, clos)
        else:
            self.frame_counter += 1
            key = (self.frame_counter, "closure_env")
            st.mem[key] = clos
            ptr = ("ptr", key, ())
            cv = clos
        fn = self.closure_fn(cv[1], cv[3] if len(cv) > 3 else 0)
        return self.call_fn(fn, [ptr] + list(args), st)
