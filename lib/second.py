"""Second opinion for the MIR-kernel checks: a sample of the queries z3's python API decided (the path-coverage
queries first) is dumped as SMT-LIB2 and given to cvc5 and to the distribution's z3 4.8.12 (lib/solverdiff.py)."""
import z3

import solverdiff

SAMPLES = []
LIMIT = 10
SEEN = {"n": 0}


def check(sol, label, priority=False):
    """sol.check() + remember some of the decided queries"""
    r = sol.check()
    SEEN["n"] += 1
    if r in (z3.sat, z3.unsat) and (priority or (len(SAMPLES) < LIMIT and SEEN["n"] % 7 == 1)):
        try:
            SAMPLES.append((label, sol.to_smt2(), "sat" if r == z3.sat else "unsat"))
        except Exception:
            pass
    return r


def verdict(max_samples=14):
    """-> (summary dict for the evidence file, list of disagreements)"""
    samples = SAMPLES[-max_samples:]
    if not samples:
        return {"queries_sampled": 0}, []
    agree, problems, counts = solverdiff.compare(samples, timeout_s=60)
    del SAMPLES[:]
    SEEN["n"] = 0
    return {"queries_sampled": len(samples), "agreements": agree, "per_solver": counts, "disagreements": problems}, problems
