"""Project families per property (the stated grammar bounds of every claim)."""
import itertools
import random

from engine_g import Case
from model import (Project, S, V, Cp, FK, NUM, NULL, SUB, RANGE, PLURAL)

TEXT_ATOMS = [
    "hello", "héllo wörld ✓", "smile 😀 ok", 'quote " and \\ backslash', "line\nbreak\ttab", "  padded  ",
    "curly {x} brace", "gt > sign", "cost $5 (approx)", "a, b | c .. d _", "100%", "nbsp zero​width",
    "#", "ünï", "'single'", "}} alone", "t( not a key", "=", "/slash/", "日本語",
]
VAR_NAMES = ["x", "y", "z", "name", "my_var"]
COMP_NAMES = ["b", "i", "a", "strong", "b2"]


def shapes(depth, maxlen):
    """Sequences over T(ext) V(ar) C(omponent, children) without two adjacent T."""
    atoms = ["T", "V"]
    def seqs(d, n):
        if n == 0:
            yield ()
            return
        for rest in seqs(d, n - 1):
            for a in atoms:
                if a == "T" and rest and rest[-1] == "T":
                    continue
                yield rest + (a,)
            if d > 0:
                for child in children(d - 1):
                    yield rest + (("C", child),)
    def children(d):
        for n in range(0, 3 if d > 0 else 2):
            for s in seqs(d, n):
                yield s
    out = []
    for n in range(1, maxlen + 1):
        out.extend(seqs(depth, n))
    return out


class Namer:
    def __init__(self, marker, rng, same_comp=False):
        self.marker = marker
        self.rng = rng
        self.t = 0
        self.v = 0
        self.c = 0
        self.same_comp = same_comp

    def text(self):
        self.t += 1
        atom = TEXT_ATOMS[self.rng.randrange(len(TEXT_ATOMS))]
        return "%s[%s.%d]" % (atom, self.marker, self.t)

    def var(self):
        self.v += 1
        return VAR_NAMES[(self.v - 1 + self.rng.randrange(2)) % len(VAR_NAMES)]

    def comp(self):
        self.c += 1
        if self.same_comp:
            return COMP_NAMES[0]
        return COMP_NAMES[(self.c - 1 + self.rng.randrange(2)) % len(COMP_NAMES)]


def build_parts(shape, namer):
    parts = []
    for a in shape:
        if a == "T":
            parts.append(namer.text())
        elif a == "V":
            parts.append(V(namer.var()))
        else:
            parts.append(("comp", namer.comp(), S(*build_parts(a[1], namer))[1]))
    return parts


def shape_name(shape):
    out = ""
    for a in shape:
        if isinstance(a, tuple):
            out += "C[%s]" % shape_name(a[1])
        else:
            out += a
    return out


STYLES = [
    {"spaces": True},
    {"spaces": False},
    {"wide_spaces": True, "tag_spaces": True},
    {"spaces": True, "ascii_escapes": True, "reverse_keys": True},
    {"spaces": False, "tag_spaces": True, "reverse_keys": True},
]

LOCALE_SETS = [
    ("en", ["en"]),
    ("en", ["en", "fr"]),
    ("en", ["en", "fr", "de"]),
    ("fr", ["en", "fr"]),          # default not first in the list
    ("en", ["fr", "pt-BR", "en"]),
    ("en", ["en", "en-US", "zh-Hant"]),
]


def c01_cases(tier, seed):
    rng = random.Random(1000 + seed)
    all_shapes = shapes(2, 3)
    if tier != "quick":
        # deeper / longer shapes are drawn at random (their full enumeration is astronomically large)
        def rand_shape(depth, maxlen):
            n = rng.randrange(1, maxlen + 1)
            out = []
            for _ in range(n):
                k = rng.randrange(3 if depth > 0 else 2)
                if k == 0 and out and out[-1] == "T":
                    k = 1
                if k == 0:
                    out.append("T")
                elif k == 1:
                    out.append("V")
                else:
                    out.append(("C", rand_shape(depth - 1, 3)))
            return tuple(out)
        all_shapes = all_shapes + [rand_shape(3, 4) for _ in range(1500)]
    deep = [
        ("C", (("C", (("C", ("T",)),)),)),                       # depth 3
        ("C", ("T", ("C", ("V",)), "T")),
    ]
    special = [
        ("T", ("C", ("T",)), "T", ("C", ("T",)), "T", ("C", ("T",)), "T"),   # three components in one string
        ("V", ("C", ("T",))),                                     # variable adjacent to tag
        (("C", ("T",)), "V"),
        (("C", ("T",)), "T"),                                     # text after the last tag
        ("V", "V", "V"),
        (deep[0],), (deep[1],),
        ("T", "V", "T", "V", "T", "V", "T"),
    ]
    rng.shuffle(all_shapes)
    if tier == "quick":
        pool = special + all_shapes[:150]
    else:
        pool = special + all_shapes[:1500]
    cases = []
    # ---- interpolated strings: 6 keys per project, every locale gets its own shape for each key
    per = 6
    i = 0
    pi = 0
    while i < len(pool):
        default, locales = LOCALE_SETS[pi % len(LOCALE_SETS)]
        style = STYLES[pi % len(STYLES)]
        files = {l: {} for l in locales}
        roles = {}
        for k in range(per):
            key = "k%d" % k
            if k == 3:
                key = "key-%d" % k     # '-' in a key name
            for li, l in enumerate(locales):
                shape = pool[(i + k + li * 7) % len(pool)]
                same = (pi + k) % 5 == 0
                namer = Namer("%s.%s" % (l, key), rng, same_comp=same)
                files[l][key] = S(*build_parts(shape, namer))
                if l == default:
                    roles[(None, (key,))] = "interp:" + shape_name(shape)
        cases.append(Case(Project(default, locales, files, style=style), "c01_interp/%d" % pi, roles=roles))
        i += per
        pi += 1
    # ---- literals of every JSON type, mixed types across locales, duplicates sharing one table slot
    lit_values = [S("plain text"), NUM(42), NUM(-7), NUM(2.5), NUM(0), ("bool", True), ("bool", False), S(""), NUM(18446744073709551615), NUM(-9223372036854775808), NUM(100.0)]
    for j, (default, locales) in enumerate(LOCALE_SETS[:4]):
        files = {l: {} for l in locales}
        roles = {}
        for k, v in enumerate(lit_values):
            key = "lit%d" % k
            for li, l in enumerate(locales):
                if li == 0 or (k + j) % 3 == 0:
                    files[l][key] = v if v[0] != "str" else S(v[1][0][1] + " " + l if v[1] else "")
                else:
                    files[l][key] = lit_values[(k + li) % len(lit_values)]   # other type in other locale
            roles[(None, (key,))] = "literal"
        # the same string in several keys (one string-table slot, several readers)
        for l in locales:
            files[l]["dup_a"] = S("shared text")
            files[l]["dup_b"] = S("shared text")
            files[l]["dup_c"] = S("shared text", V("x"), "shared text")
        cases.append(Case(Project(default, locales, files, style=STYLES[j % len(STYLES)]), "c01_literals/%d" % j, roles=roles))
    # ---- subkeys (depth 2) and namespaces
    for j, (default, locales) in enumerate(LOCALE_SETS[1:5]):
        def tree(l, tagp):
            n = Namer("%s.%s" % (l, tagp), rng)
            return {
                "top": S(n.text()),
                "grp": SUB({
                    "top": S(n.text()),            # same leaf name as at the top level
                    "inner": SUB({"top": S(n.text(), V("x")), "leaf": S(Cp("b", n.text()))}),
                    "v": S(V("x"), n.text()),
                }),
                "grp2": SUB({"top": S(n.text()), "leaf": NUM(3)}),
            }
        files = {l: tree(l, "t") for l in locales}
        cases.append(Case(Project(default, locales, files, style=STYLES[j % len(STYLES)]), "c01_subkeys/%d" % j, roles={"*": "subkeys"}))
        # declaration order of the namespaces in Cargo.toml: alphabetical or not, two or three
        nsnames = [["common", "home"], ["home", "common"], ["zeta", "alpha", "mid"], ["b_ns", "a_ns"]][j % 4]
        nsfiles = {ns: {l: tree(l, ns) for l in locales} for ns in nsnames}
        cases.append(Case(Project(default, locales, nsfiles, namespaces=nsnames, style=STYLES[(j + 1) % len(STYLES)]),
                          "c01_namespaces/%d" % j, roles={"*": "namespaces"}))
    # whitespace-only literal pieces between interpolations / as a component's only child; empty component
    for j, (default, locales) in enumerate(LOCALE_SETS[1:3]):
        files = {l: {
            "ws1": S(V("first"), " ", V("last")),
            "ws2": S(Cp("b", "bold " + l), " ", Cp("i", "italic")),
            "ws3": S(V("a"), "\n", V("b"), "\t", V("a")),
            "ws4": S("[", Cp("b", " "), "]", Cp("i"), "  ", V("x"), "  "),
            "ws5": S(" ", V("x"), " "),
            "ws6": S("   "),
        } for l in locales}
        cases.append(Case(Project(default, locales, files, style=STYLES[j]), "c01_whitespace/%d" % j, roles={"*": "whitespace_only_pieces"}))
    # numbers / bools reaching a run of literal text through a foreign key or a literal argument, in first position
    files = {l: {
        "n": NUM(5), "neg": NUM(-3), "fl": NUM(2.5), "yes": ("bool", True), "tpl": S(V("n"), " items in ", V("place")),
        "a": S(FK("n"), " apples " + l), "b": S(FK("neg"), FK("fl"), FK("yes"), " end"), "c": S(FK("tpl", {"n": NUM(3), "place": S("box")})),
        "d": S(FK("tpl", {"n": ("bool", False), "place": NUM(7)}), "!"), "e": S("I have ", FK("n"), " apples"), "f": S(FK("yes")),
    } for l in ("en", "fr")}
    cases.append(Case(Project("en", ["en", "fr"], files), "c01_fk_literals/0", roles={"*": "literal_joined_into_text"}))
    # > 26 pieces in one value (tuple chunking: 27, 28, 53, 60 pieces) and > 16 locales (nested EitherOf)
    def pieces(n, marker):
        nm = Namer(marker, rng)
        out = []
        for q in range(n):
            out.append(nm.text() if q % 2 == 0 else V("v%d" % (q % 5)))
        return out
    files = {"en": {"p27": S(*pieces(27, "en.p27")), "p28": S(*pieces(28, "en.p28")), "p53": S(*pieces(53, "en.p53")), "p60": S(*pieces(60, "en.p60")),
                    "p26": S(*pieces(26, "en.p26"))}}
    cases.append(Case(Project("en", ["en"], files), "c01_large/pieces", roles={"*": "more_than_26_pieces"}))
    if tier != "quick":
        many = ["en"] + ["l%c%c" % (chr(97 + q // 26), chr(97 + q % 26)) for q in range(19)]
        files = {l: {"big": S(*pieces(40, l + ".big")), "small": S("s " + l, V("x"))} for l in many}
        cases.append(Case(Project("en", many, files), "c01_large/locales", roles={"*": "more_than_16_locales"}))
    return cases


# =========================================================================================== C03
def c03_cases(tier, seed):
    rng = random.Random(3000 + seed)
    others = ["fr", "de", "it"]
    targets = [None, "en", "fr", "de", "it"]
    maps = list(itertools.product(targets, repeat=3))
    pres = list(itertools.product(["def", "null", "abs"], repeat=3))
    combos = [(m, p) for m in maps for p in pres]
    rng.shuffle(combos)
    if tier == "quick":
        # every inherits map once (125), presence patterns rotating
        combos = [(m, pres[(i * 7 + seed) % len(pres)]) for i, m in enumerate(maps)]
    cases = []
    for ci, (m, p) in enumerate(combos):
        inherits = {l: t for l, t in zip(others, m) if t is not None}
        locales = ["en"] + others
        if ci % 3 == 1:
            locales = ["fr", "en", "it", "de"]          # default not first, other order
        files = {l: {} for l in locales}

        def put(l, key, pattern_state, value):
            if pattern_state == "def":
                files[l][key] = value
            elif pattern_state == "null":
                files[l][key] = NULL()

        rot = lambda k: p[k % 3:] + p[:k % 3]
        for l in ["en"]:
            files[l]["v"] = S("v in en")
            files[l]["i"] = S("i in en ", V("x"), " ", Cp("b", "c"))
            files[l]["n"] = NUM(7)
            files[l]["r"] = RANGE("u8", [([("exact", 0)], S("r0 en")), ("fallback", S("r_ en ", V("count")))])
            files[l]["g"] = SUB({"x": S("g.x en"), "y": S("g.y en ", V("x")), "h": SUB({"z": S("g.h.z en")})})
        for li, l in enumerate(others):
            put(l, "v", p[li], S("v in " + l))
            put(l, "i", rot(1)[li], S(Cp("b", "i in " + l), V("y")))
            put(l, "n", rot(2)[li], NUM(100 + li) if li != 1 else S("n as text " + l))
            put(l, "r", rot(1)[li], RANGE("u8", [([("bounds", 1, 3, True)], S("r1-3 " + l)), ("fallback", S("r_ " + l))]))
            gs = rot(2)[li]
            if gs == "def":
                inner = {"x": S("g.x " + l)}
                ys = p[(li + 1) % 3]
                if ys == "def":
                    inner["y"] = S("g.y " + l)
                elif ys == "null":
                    inner["y"] = NULL()
                hs = p[(li + 2) % 3]
                if hs == "def":
                    inner["h"] = SUB({"z": S("g.h.z " + l)})
                elif hs == "null":
                    inner["h"] = NULL()
                files[l]["g"] = SUB(inner)
            elif gs == "null":
                files[l]["g"] = NULL()
        kind = "chain"
        if any(inherits.get(l) == l for l in others):
            kind = "self"
        cases.append(Case(Project("en", locales, files, inherits=inherits), "c03_inherit/%d" % ci,
                          roles={"*": "inherits:%s" % kind}))
    return cases


# =========================================================================================== C04
import model as _model

INT_TYPES_ALL = ["i8", "i16", "i32", "i64", "u8", "u16", "u32", "u64"]


def boundary_values(ty):
    if ty == "f64":
        # 0.1 and 16777217.0 are not representable in f32: a detour through f32 changes them
        return [-2.5, -1.0, -0.0, 0.0, 0.1, 0.5, 1.0, 2.5, 16777217.0, 1e9]
    if ty in _model.FLOAT_TYPES:
        return [-2.5, -1.0, -0.0, 0.0, 0.5, 1.0, 2.5, 1e9]
    lo, hi = _model.INT_RANGE[ty]
    vals = {lo, lo + 1, 0, 1, 2, 5, hi - 1, hi}
    if lo < 0:
        vals |= {-1, -5}
    return sorted(vals)


def random_spec(rng, ty):
    vals = boundary_values(ty)
    is_f = ty in _model.FLOAT_TYPES
    lo = None if is_f else _model.INT_RANGE[ty][0]
    for _ in range(50):
        k = rng.randrange(6)
        a, b = sorted(rng.sample(vals, 2))
        if k == 0:
            return ("exact", rng.choice(vals))
        if k == 1 and a < b and (is_f or b > lo):
            return ("bounds", a, b, False)
        if k == 2:
            return ("bounds", a, b, True)
        if k == 3 and (is_f or b > lo):
            return ("bounds", None, b, False)
        if k == 4:
            return ("bounds", None, b, True)
        if k == 5:
            return ("bounds", a, None, False)
    return ("exact", vals[0])


def c04_cases(tier, seed):
    rng = random.Random(4000 + seed)
    cases = []
    styles = [
        {"range_syntax": "seq"}, {"range_syntax": "map"}, {"range_syntax": "mixed", "pipe": True},
        {"range_syntax": "seq", "numeric_counts": True}, {"range_syntax": "seq", "bare_fallback": False, "pipe": True},
        {"range_syntax": "map", "bare_fallback": False, "numeric_counts": True},
        {"range_syntax": "mixed", "pipe": "tail", "numeric_counts": True},
    ]
    types = INT_TYPES_ALL + ["f32", "f64", None]
    per_type = 2 if tier == "quick" else 12
    ci = 0
    for ty in types:
        for rep in range(per_type * (2 if ty in ("f32", "f64") else 1)):
            style = styles[(ci + rep) % len(styles)]
            files = {"en": {}, "fr": {}}
            roles = {}
            ety = ty or "i32"
            for k in range(5):
                nb = rng.randrange(1, 5)
                branches = []
                for b in range(nb):
                    nspec = 1 if rng.random() < 0.6 else rng.randrange(2, 4)
                    specs = [random_spec(rng, ety) for _ in range(nspec)]
                    txt = S("r%d.%d " % (k, b), V("count"), " items") if (k + b) % 2 == 0 else S("r%d.%d fixed" % (k, b))
                    if (k + b) % 4 == 0:
                        txt = S(V("count"), " items r%d.%d" % (k, b))      # the count opens the branch
                    branches.append((specs, txt))
                branches.append(("fallback", S("r%d.else " % k, V("count")) if k % 2 else S("r%d.else" % k)))
                files["en"]["r%d" % k] = RANGE(ty, branches)
                # other locale: same type, other branches (order reversed -> overlapping branches in another order)
                fb = [(s, S("fr " + v[1][0][1])) for s, v in reversed(branches[:-1])] + [("fallback", S("fr else"))]
                files["fr"]["r%d" % k] = RANGE(ty, fb)
                roles[(None, ("r%d" % k,))] = "range:%s" % ety
                # parse-time selection through a foreign key with a literal count, and renaming
                vals = boundary_values(ety)
                n = vals[(k * 3 + rep) % len(vals)]
                if ety in _model.FLOAT_TYPES and n == 1e9:
                    n = 2.5
                # a second literal count sitting exactly on a bound of this declaration (where inclusive / exclusive,
                # type conversions and rounding matter)
                used = []
                for specs, _ in branches[:-1]:
                    for sp in specs:
                        used += [x for x in (sp[1:3] if sp[0] == "bounds" else sp[1:2]) if x is not None]
                nb2 = used[(k + rep) % len(used)] if used else n
                if ety in _model.FLOAT_TYPES:
                    nb2 = float(nb2)
                for l in ("en", "fr"):
                    files[l]["f%d" % k] = S("<", FK("r%d" % k, {"count": NUM(n)}), ">")
                    files[l]["h%d" % k] = S("{", FK("r%d" % k, {"count": NUM(nb2)}), "}")
                    files[l]["g%d" % k] = S(FK("r%d" % k, {"count": S(V("n"))}), " end")
                    files[l]["e%d" % k] = S(FK("r%d" % k, {"count": NUM(n)}), " tail")       # reference in first position
                    files[l]["d%d" % k] = S(FK("r%d" % k, {"count": NUM(nb2)}))
                roles[(None, ("f%d" % k,))] = "range_fk_literal_count:%s" % ety
                roles[(None, ("h%d" % k,))] = "range_fk_literal_count_on_bound:%s" % ety
                roles[(None, ("g%d" % k,))] = "range_fk_renamed_count:%s" % ety
                roles[(None, ("e%d" % k,))] = "range_fk_literal_count_first:%s" % ety
                roles[(None, ("d%d" % k,))] = "range_fk_literal_count_alone:%s" % ety
            cases.append(Case(Project("en", ["en", "fr"], files, style=style), "c04_ranges/%s/%d" % (ety, rep), roles=roles))
            ci += 1
    # integer ranges without fallback that cover the whole type
    for ty in INT_TYPES_ALL:
        lo, hi = _model.INT_RANGE[ty]
        files = {"en": {
            "full": RANGE(ty, [([("bounds", None, 0, True)], S("<=0")), ([("bounds", 1, None, False)], S(">=1 ", V("count")))]),
            "ends": RANGE(ty, [([("exact", lo)], S("min")), ([("exact", hi)], S("max")), ([("bounds", lo + 1, hi, False)], S("mid"))]),
        }}
        cases.append(Case(Project("en", ["en"], files), "c04_nofallback/%s" % ty, roles={"*": "range_no_fallback:%s" % ty}))
    return cases


# =========================================================================================== C05
PLURAL_LOCALES = ["en", "fr", "ru", "ar", "pl", "ja", "cy"]


def c05_cases(tier, seed):
    rng = random.Random(5000 + seed)
    forms5 = ["zero", "one", "two", "few", "many"]
    subsets = []
    for r in range(0, 6):
        for c in itertools.combinations(forms5, r):
            subsets.append(list(c) + ["other"])
    subsets = [s for s in subsets if len(s) >= 2]      # a lone _other is not a plural
    rng.shuffle(subsets)
    cases = []
    nproj = 8 if tier == "quick" else 40
    for pi in range(nproj):
        default = PLURAL_LOCALES[pi % len(PLURAL_LOCALES)]
        rest = [l for l in PLURAL_LOCALES if l != default]
        locales = [default] + [rest[(pi + 1) % len(rest)], rest[(pi + 3) % len(rest)]]
        files = {l: {} for l in locales}
        roles = {}
        for k in range(4):
            rule = "ordinal" if (pi + k) % 3 == 0 else "cardinal"
            for li, l in enumerate(locales):
                sub = subsets[(pi * 4 + k + li * 5) % len(subsets)]
                forms = {}
                for f in sub:
                    forms[f] = S("%s p%d %s " % (l, k, f), V("count")) if (k + li) % 2 == 0 else S("%s p%d %s" % (l, k, f), Cp("b", V("count")))
                files[l]["p%d" % k] = PLURAL(rule, forms)
                n = [0, 1, 2, 3, 5, 11, 21, 100, 1.5][(pi + k + li) % 9]
                files[l]["f%d" % k] = S("[", FK("p%d" % k, {"count": NUM(n)}), "]")
                files[l]["g%d" % k] = S(FK("p%d" % k, {"count": S(" ", V("n"), " ")}))
            roles[(None, ("p%d" % k,))] = "plural:%s" % rule
            roles[(None, ("f%d" % k,))] = "plural_fk_literal_count:%s" % rule
            roles[(None, ("g%d" % k,))] = "plural_fk_renamed_count:%s" % rule
        cases.append(Case(Project(default, locales, files), "c05_plurals/%d" % pi, roles=roles))
    # base keys that look like plural / ordinal markers themselves
    tricky = {}
    for l in ["en", "fr", "ru"]:
        tricky[l] = {
            "non_ordinal_points": PLURAL("cardinal", {"one": S(l + " point ", V("count")), "other": S(l + " points ", V("count"))}),
            "a_one_b": PLURAL("cardinal", {"one": S(l + " a1b"), "few": S(l + " afb"), "other": S(l + " aob ", V("count"))}),
            "rank_other_x": PLURAL("ordinal", {"one": S(l + " 1st"), "two": S(l + " 2nd"), "other": S(l + " nth ", V("count"))}),
            "plain_one": S(l + " not a plural: lone form"),           # a single `_one` key without `_other` stays a normal key
            "ordinal": PLURAL("cardinal", {"one": S(l + " o1"), "other": S(l + " oo")}),
        }
    cases.insert(0, Case(Project("en", ["en", "fr", "ru"], tricky), "c05_tricky_names/0", roles={"*": "plural_tricky_names"}))
    # two locales of one language whose CLDR rules differ (pt: one <- i = 0..1, pt-PT: one <- i = 1 and v = 0)
    files = {l: {"p": PLURAL("cardinal", {"one": S(l + " one ", V("count")), "other": S(l + " other ", V("count"))}),
                 "o": PLURAL("ordinal", {"one": S(l + " 1st"), "two": S(l + " 2nd"), "few": S(l + " 3rd"), "other": S(l + " nth ", V("count"))})}
             for l in ["pt", "pt-PT", "en", "en-GB"]}
    cases.insert(0, Case(Project("pt", ["pt", "pt-PT", "en", "en-GB"], files), "c05_same_language/0", roles={"*": "plural_same_language"}))
    # inside subkeys and namespaces; plural that only exists in one locale (string elsewhere)
    files = {l: {"grp": SUB({"p": PLURAL("cardinal", {"one": S(l + " one"), "other": S(l + " other ", V("count"))}),
                              "q": S(l + " q")}),
                 "mix": (PLURAL("ordinal", {"one": S("1st"), "two": S("2nd"), "few": S("3rd"), "other": S(V("count"), "th")}) if l == "en" else S(l + " no plural"))}
             for l in ["en", "fr"]}
    cases.append(Case(Project("en", ["en", "fr"], files), "c05_nested/0", roles={"*": "plural_nested"}))
    # errors: mixing cardinal and ordinal forms under one key; colliding with an existing key
    bad1 = Project("en", ["en"], {"en": {"k_one": S("a"), "k_ordinal_other": S("b"), "k_other": S("c"), "k_ordinal_one": S("d")}})
    # print_map writes keys verbatim: cardinal `k` gets one/other, ordinal `k` gets one/other -> two plurals -> same key `k`
    cases.append(Case(bad1, "c05_errors/two_rule_types_same_key", expect="error", roles={"*": "plural_conflict"}))
    bad2 = Project("en", ["en"], {"en": {"k": S("plain"), "k_one": S("a"), "k_other": S("b")}})
    cases.append(Case(bad2, "c05_errors/collides_with_key", expect="error", roles={"*": "plural_collision"}))
    return cases


# =========================================================================================== C06
def c06_targets(l):
    """Target keys of every kind, text marked with the locale."""
    return {
        "t_lit": S(l + " plain"),
        "t_num": NUM(5),
        "t_neg": NUM(-3),
        "t_float": NUM(2.5),
        "t_bool": ("bool", True),
        "t_var": S(l + " hello ", V("name"), " and ", V("other"), "."),
        "t_comp": S(Cp("b", l + " bold ", V("name")), " tail"),
        "t_range": RANGE("u8", [([("exact", 0)], S(l + " none")), ([("bounds", 1, 5, False)], S(l + " few ", V("count"))),
                                ("fallback", S(l + " many ", V("count"), " for ", V("name")))]),
        "t_frange": RANGE("f64", [([("bounds", 0.0, 1.0, False)], S(l + " part")), ("fallback", S(l + " whole ", V("count")))]),
        "t_plural": PLURAL("cardinal", {"one": S(l + " one item"), "other": S(l + " ", V("count"), " items of ", V("name"))}),
        "grp": SUB({"leaf": S(l + " grp.leaf ", V("name")), "deep": SUB({"leaf": S(l + " grp.deep.leaf")})}),
    }


ARG_KINDS = [
    ("str", lambda: S("ARG")),
    ("num", lambda: NUM(56)),
    ("neg", lambda: NUM(-4)),
    ("float", lambda: NUM(1.5)),
    ("bool", lambda: ("bool", False)),
    ("interp", lambda: S("value: ", V("new_arg"))),
    ("nested_fk", lambda: S("nested ", FK("t_lit"))),
    ("nested_fk_args", lambda: S(FK("t_var", {"name": S("N"), "other": S(V("o2"))}))),
    ("comp_in_arg", lambda: S(Cp("i", "em"))),
    ("unicode", lambda: S("Zoé à Orléans, 日本 😀")),
]


def c06_cases(tier, seed):
    rng = random.Random(6000 + seed)
    cases = []
    targets = ["t_lit", "t_num", "t_neg", "t_float", "t_bool", "t_var", "t_comp", "grp.leaf", "grp.deep.leaf"]

    def base(locales):
        return {l: c06_targets(l) for l in locales}

    # ---- every target kind x every argument kind, referencing key before / after the target in key order
    ci = 0
    for ai, (aname, mk) in enumerate(ARG_KINDS):
        locales = ["en", "fr"] if ai % 2 == 0 else ["en", "fr", "de"]
        files = base(locales)
        roles = {}
        for ti, t in enumerate(targets):
            for prefix in ("a_", "z_"):
                key = "%sref%d" % (prefix, ti)
                for l in locales:
                    if prefix == "a_":
                        files[l][key] = S("[", FK(t, {"name": mk(), "unused": S("dropped")}), "]")
                    else:
                        files[l][key] = S(FK(t, {"name": mk(), "unused": S("dropped é")}), " after")      # reference in first position
                roles[(None, (key,))] = "fk_%s_to_%s" % (aname, t.replace(".", "_"))
        cases.append(Case(Project("en", locales, files, style=STYLES[ai % len(STYLES)] if ai % 3 else {"fk_spaces": True}),
                          "c06_args/%s" % aname, roles=roles))
        ci += 1
    # ---- counts: literal / renamed, on ranges and plurals, with other args at the same time
    for rep, (cnt, cname) in enumerate([(NUM(0), "lit0"), (NUM(3), "lit3"), (NUM(200), "lit200"), (S(V("n")), "rename"), (S(" ", V("n"), " "), "rename_ws")]):
        files = base(["en", "fr"])
        roles = {}
        for l in ("en", "fr"):
            files[l]["c_range"] = S("R:", FK("t_range", {"count": cnt, "name": S("NM")}))
            files[l]["c_plural"] = S("P:", FK("t_plural", {"count": cnt, "name": S(V("who"))}))
            files[l]["c_range_only_name"] = S(FK("t_range", {"name": S("just name")}))
            if cnt[0] == "num":
                files[l]["c_frange"] = S("F:", FK("t_frange", {"count": NUM(float(cnt[1]) / 4)}))
            else:
                files[l]["c_frange"] = S("F:", FK("t_frange", {"count": cnt}))
        for k in ("c_range", "c_plural", "c_range_only_name", "c_frange"):
            roles[(None, (k,))] = "fk_count_%s" % cname
        cases.append(Case(Project("en", ["en", "fr"], files), "c06_counts/%s" % cname, roles=roles))
    # ---- literal counts whose plural category has no declared form (falls back to `other`), arguments still applied;
    #      count and references in first position of the value
    locs = ["en", "fr", "ru", "ar"]
    files = {l: {"t_ord": PLURAL("ordinal", {"one": S(l + " ", V("count"), "st of ", V("name")), "other": S(V("count"), "th ", l, " of ", V("name"))}),
                 "t_card": PLURAL("cardinal", {"one": S(V("name"), " ", l, " one ", V("count")), "other": S(V("count"), " ", l, " others, ", V("name"))}),
                 "t_price": NUM(59), "t_on": ("bool", True), "t_items": S(V("count"), " items in ", V("place"))} for l in locs}
    roles = {}
    for i, n in enumerate([0, 1, 2, 3, 5, 11, 100]):
        for l in locs:
            files[l]["o%d" % i] = S(FK("t_ord", {"count": NUM(n), "name": S(V("who"))}), " end")
            files[l]["k%d" % i] = S("[", FK("t_card", {"count": NUM(n), "name": S("NM")}), "]")
        roles[(None, ("o%d" % i,))] = "fk_count_undeclared_form"
        roles[(None, ("k%d" % i,))] = "fk_count_undeclared_form"
    for l in locs:
        files[l]["first_num"] = S(FK("t_price"), " euros")
        files[l]["first_bool"] = S(FK("t_on"), " is the setting")
        files[l]["first_count"] = S(FK("t_items", {"count": NUM(3), "place": S("the cart")}), " today")
    for k in ("first_num", "first_bool", "first_count"):
        roles[(None, (k,))] = "fk_first_position_nonstring"
    cases.append(Case(Project("en", locs, files), "c06_counts/undeclared_form", roles=roles))
    # ---- chains of references (depth 3), arguments travelling through the chain, references inside plural forms / range branches
    def chain_files(which):
        files = base(["en", "fr"])
        for l in ("en", "fr"):
            f = files[l]
            if which == "chains":
                f["ch1"] = S(l + " c1 ", FK("t_var", {"name": S(V("who"))}))
                f["ch2"] = S(l + " c2 ", FK("ch1", {"who": S("W"), "other": S("O")}))
                f["ch3"] = S(l + " c3 ", FK("ch2"), " ", FK("t_lit"))
            elif which == "args_through_chain":
                f["x_inner"] = S(l + " inner ", V("v"))
                f["x_mid"] = S(l + " mid ", FK("x_inner"))
                f["x_outer"] = S(FK("x_mid", {"v": S("V!")}))
            elif which == "fk_inside_plural":
                f["pl"] = PLURAL("cardinal", {"one": S("one ", FK("t_lit")), "other": S(FK("t_var", {"name": S(V("count"))}))})
            elif which == "fk_inside_range":
                f["rg"] = RANGE("u8", [([("exact", 1)], S(FK("t_comp", {"name": S("one")}))), ("fallback", S(FK("t_range", {"count": S(V("count"))})))])
            elif which == "two_counts":
                f["two"] = S(FK("t_plural", {"count": S(V("a"))}), " / ", FK("t_plural", {"count": S(V("b"))}))
        return files
    # a reference written inside a component of the referencing key
    files = base(["en", "fr"])
    for l in ("en", "fr"):
        files[l]["in_comp"] = S(Cp("b", FK("t_lit")), " tail")
        files[l]["in_comp2"] = S("head ", Cp("b", "x ", FK("t_var", {"name": S("N")}), " y"))
    cases.append(Case(Project("en", ["en", "fr"], files), "c06_fk_inside_component/0", roles={"*": "fk_inside_component"}))
    for which in ("chains", "args_through_chain", "fk_inside_plural", "fk_inside_range", "two_counts"):
        cases.append(Case(Project("en", ["en", "fr"], chain_files(which)), "c06_%s/0" % which, roles={"*": which}))
    # ---- targets that are null / inherited in the referencing locale
    for ii, inherits in enumerate([{}, {"de": "fr"}, {"de": "fr", "fr": "en"}, {"fr": "de", "de": "fr"}]):
        locales = ["en", "fr", "de"]
        files = base(locales)
        roles = {}
        files["de"]["t_lit"] = NULL()
        files["de"]["t_var"] = NULL()
        files["fr"]["t_comp"] = NULL()
        for l in locales:
            files[l]["n_lit"] = S("ref:", FK("t_lit"))
            files[l]["n_var"] = S("ref:", FK("t_var", {"name": S("NM")}))
            files[l]["n_comp"] = S("ref:", FK("t_comp"))
        roles[(None, ("n_lit",))] = "fk_to_null_target" + ("_inherits" if inherits else "")
        roles[(None, ("n_var",))] = "fk_to_null_target" + ("_inherits" if inherits else "")
        roles[(None, ("n_comp",))] = "fk_to_null_target" + ("_inherits" if inherits else "")
        cases.append(Case(Project("en", locales, files, inherits=inherits), "c06_null_target/%d" % ii, roles=roles))
    # ---- cross-namespace
    nsf = {"common": {l: c06_targets(l) for l in ("en", "fr")}, "home": {l: {} for l in ("en", "fr")}}
    roles = {}
    for l in ("en", "fr"):
        nsf["home"][l]["a"] = S("home:", FK("common:t_var", {"name": S("X")}))
        nsf["home"][l]["b"] = S(FK("common:grp.deep.leaf"), FK("home:a"))
        nsf["home"][l]["c"] = S(FK("common:t_plural", {"count": NUM(1)}))
        nsf["common"][l]["back"] = S(FK("home:b"))
    cases.append(Case(Project("en", ["en", "fr"], nsf, namespaces=["common", "home"]), "c06_namespaces/0", roles={"*": "cross_namespace"}))
    # ---- random acyclic reference graphs (depth <= 3), random argument sets, random declaration order
    ngraphs = 6 if tier == "quick" else 120
    tvars = {"t_lit": [], "t_num": [], "t_float": [], "t_bool": [], "t_var": ["name", "other"], "t_comp": ["name"],
             "t_range": ["count", "name"], "t_frange": ["count"], "t_plural": ["count", "name"], "grp.leaf": ["name"], "grp.deep.leaf": []}
    counted = {"t_range": "int", "t_frange": "float", "t_plural": "plural"}
    for gi in range(ngraphs):
        locales = ["en", "fr"] if gi % 2 == 0 else ["en", "fr", "de"]
        files = base(locales)
        roles = {}
        names = []
        free = {}          # key -> variables still free in it (approximation used only to pick arguments)
        kinds = {}
        order = list(range(6))
        letters = rng.sample("abcdefghijklmnopqrstuvwxyz", 6)
        for i in order:
            key = "%s_r%d" % (letters[i], i)
            pool = list(tvars) + names
            tgt = rng.choice(pool)
            tv = list(tvars.get(tgt, free.get(tgt, [])))
            args = {}
            for v in tv:
                r = rng.random()
                if v == "count" and (tgt in counted or kinds.get(tgt) in counted.values()):
                    ck = counted.get(tgt, kinds.get(tgt))
                    if r < 0.35:
                        args[v] = NUM({"int": rng.choice([0, 1, 3, 200]), "float": rng.choice([0.0, 0.5, 2.0]), "plural": rng.choice([0, 1, 2, 5, 21])}[ck])
                    elif r < 0.7:
                        args[v] = S(V("n%d" % i))
                elif r < 0.3:
                    args[v] = S("A%d" % i)
                elif r < 0.5:
                    args[v] = S("<", V("w%d" % i), ">")
                elif r < 0.6:
                    args[v] = NUM(rng.choice([7, -2, 1.5]))
                elif r < 0.7 and names:
                    args[v] = S(FK(rng.choice(names)))
            parts = []
            if rng.random() < 0.6:
                parts.append("%s:" % key)
            parts.append(FK(tgt, args))
            if rng.random() < 0.5:
                parts.append(" +")
            if rng.random() < 0.25:
                parts.append(FK(rng.choice(list(tvars))))
            for l in locales:
                files[l][key] = S(*parts)
            names.append(key)
            # variables left free: those of the target not given, renamed counts, variables inside string arguments
            fv = [v for v in tv if v not in args]
            for v, a in args.items():
                if a[0] == "str":
                    fv += [p[1] for p in a[1] if p[0] == "var"]
            if "count" in args and args["count"][0] == "str":
                kinds[key] = counted.get(tgt, kinds.get(tgt))
                fv.append("n%d" % i)
            elif "count" not in args and (tgt in counted or kinds.get(tgt)):
                kinds[key] = counted.get(tgt, kinds.get(tgt))
            free[key] = sorted(set(fv))
            roles[(None, (key,))] = "random_graph"
        inherits = {"de": "fr"} if len(locales) == 3 and gi % 4 == 1 else None
        cases.append(Case(Project("en", locales, files, inherits=inherits), "c06_random/%d" % gi, roles=roles, expect="any" if False else "ok"))
    # ---- rejected: unresolved, subkey group, cycles
    def bad(name, extra, role):
        files = {"en": dict(c06_targets("en"))}
        files["en"].update(extra)
        cases.append(Case(Project("en", ["en"], files), "c06_errors/" + name, expect="error", roles={"*": role}))
    bad("unresolved", {"r": S(FK("nope"))}, "unresolved")
    bad("unresolved_subkey", {"r": S(FK("grp.nope"))}, "unresolved")
    bad("subkey_group", {"r": S(FK("grp"))}, "subkey_group")
    bad("subkey_group_deep", {"r": S(FK("grp.deep"))}, "subkey_group")
    bad("self_cycle", {"r": S("x ", FK("r"))}, "cycle")
    bad("two_cycle", {"r": S(FK("s")), "s": S(FK("r"))}, "cycle")
    bad("three_cycle", {"r": S(FK("s")), "s": S(FK("u")), "u": S("u ", FK("r"))}, "cycle")
    bad("cycle_through_arg", {"r": S(FK("t_var", {"name": S(FK("r"))}))}, "cycle")
    bad("namespace_in_plain_project", {"r": S(FK("common:t_lit"))}, "unresolved")
    return cases


# =========================================================================================== C02
def c02_cases(tier, seed):
    """Every kind of key once more, decided flavour against flavour (no reference involved)."""
    cases = []
    c1 = c01_cases(tier, seed)
    cases += c1[: (12 if tier == "quick" else len(c1))]
    cases += [c for c in c1 if c.tag.startswith(("c01_literals", "c01_subkeys", "c01_namespaces"))][:6]
    cases += [c for c in c1 if c.tag.startswith("c01_large")]
    c4 = c04_cases(tier, seed)
    cases += c4[:: (3 if tier == "quick" else 1)]
    c5 = [c for c in c05_cases(tier, seed) if c.expect == "ok"]
    cases += c5[:: (2 if tier == "quick" else 1)]
    c6 = [c for c in c06_cases(tier, seed) if c.expect == "ok"]
    cases += c6[:: (3 if tier == "quick" else 1)]
    c3 = c03_cases(tier, seed)
    cases += c3[:: (12 if tier == "quick" else 5)]
    seen = set()
    out = []
    for c in cases:
        if id(c) in seen:
            continue
        seen.add(id(c))
        c.tag = "c02:" + c.tag
        out.append(c)
    return out


# =========================================================================================== C18
FMT_VOCAB = {
    "number": [("grouping_strategy", ["auto", "never", "always", "min2"])],
    "currency": [("width", ["short", "narrow"]), ("currency_code", ["USD", "EUR", "JPY"])],
    "date": [("date_length", ["full", "long", "medium", "short"])],
    "time": [("time_length", ["full", "long", "medium", "short"])],
    "datetime": [("date_length", ["full", "long", "medium", "short"]), ("time_length", ["full", "long", "medium", "short"])],
    "list": [("list_type", ["and", "or", "unit"]), ("list_style", ["wide", "short", "narrow"])],
}


def fmt_sources(name, args, variant):
    """Source text variants of `name(args)`: (src, args as the documented grammar reads them)."""
    if args is None:
        return [name, " " + name + " ", name + "()"][variant % 3], ([] if variant % 3 == 2 else None)
    if variant % 4 == 0:
        src = name + "(" + ";".join("%s:%s" % (k, v) for k, v in args) + ")"
    elif variant % 4 == 1:
        src = " " + name + " ( " + " ; ".join(" %s : %s " % (k, v) for k, v in args) + " ) "
    elif variant % 4 == 2:
        src = name + "(" + "; ".join("%s: %s" % (k, v) for k, v in reversed(args)) + ";)"
    else:
        src = name + "(" + "; ".join("%s: %s" % (k, v) for k, v in args) + "; unknown_arg: whatever)"
    return src, list(args)


def c18_cases(tier, seed):
    rng = random.Random(18000 + seed)
    cases = []
    combos = []
    for name, params in FMT_VOCAB.items():
        combos.append((name, None))
        value_lists = [[(p, v) for v in vals] + [None] for p, vals in params]
        for choice in itertools.product(*value_lists):
            args = [c for c in choice if c is not None]
            combos.append((name, args))
        # unrecognised option values fall back to the default
        combos.append((name, [(params[0][0], "bogus")]))
        combos.append((name, [(params[0][0], params[0][1][-1].upper())]))
    if tier == "quick":
        rng.shuffle(combos)
        combos = combos[:60]
    per = 6
    for pi in range(0, len(combos), per):
        chunk = combos[pi:pi + per]
        locales = [["en", "fr"], ["en", "ar", "ja"], ["fr", "en"]][(pi // per) % 3]
        default = "en"
        files = {l: {} for l in locales}
        roles = {}
        for k, (name, args) in enumerate(chunk):
            key = "f%d" % k
            for li, l in enumerate(locales):
                src, read_args = fmt_sources(name, args, pi + k + li)
                fmt = {"name": name, "args": read_args, "src": src}
                if li % 2 == 0:
                    files[l][key] = S(l + " before ", V("v", fmt), " after")
                else:
                    files[l][key] = S(Cp("b", V("v", fmt)), " ", V("other"))
            roles[(None, (key,))] = "formatter:%s" % name
        cases.append(Case(Project(default, locales, files, style=STYLES[(pi // per) % len(STYLES)]), "c18_formatters/%d" % (pi // per), roles=roles))
    # one process, one locale, formatters that differ in exactly one option (the formatter cache must key on all of them)
    def fm(name, *args):
        return {"name": name, "args": list(args) if args else None}
    pairs = {
        "dt_a": fm("datetime"), "dt_b": fm("datetime", ("time_length", "medium")), "dt_c": fm("datetime", ("date_length", "full")),
        "dt_d": fm("datetime", ("date_length", "full"), ("time_length", "medium")), "dt_e": fm("datetime", ("date_length", "short"), ("time_length", "medium")),
        "d_a": fm("date"), "d_b": fm("date", ("date_length", "full")), "d_c": fm("date", ("date_length", "short")),
        "t_a": fm("time"), "t_b": fm("time", ("time_length", "medium")),
        "n_a": fm("number"), "n_b": fm("number", ("grouping_strategy", "never")), "n_c": fm("number", ("grouping_strategy", "always")),
        "l_a": fm("list"), "l_b": fm("list", ("list_type", "and")), "l_c": fm("list", ("list_type", "and"), ("list_style", "short")), "l_d": fm("list", ("list_style", "short")),
        "c_a": fm("currency"), "c_b": fm("currency", ("width", "narrow")), "c_c": fm("currency", ("currency_code", "EUR")), "c_d": fm("currency", ("width", "narrow"), ("currency_code", "EUR")),
    }
    files = {l: {k: S(l + " ", V("v", f)) for k, f in pairs.items()} for l in ("en", "fr", "en-GB")}
    cases.insert(0, Case(Project("en", ["en", "fr", "en-GB"], files), "c18_cache/0", roles={"*": "formatter_cache"}))
    # same variable formatted two ways in one key, and formatted inside ranges / plurals
    files = {"en": {
        "two": S(V("n", {"name": "number", "args": None}), " / ", V("n", {"name": "number", "args": [("grouping_strategy", "never")]})),
        "in_range": RANGE("u32", [([("exact", 0)], S("none")), ("fallback", S(V("d", {"name": "date", "args": [("date_length", "long")]}), " x ", V("count")))]),
        "in_plural": PLURAL("cardinal", {"one": S(V("l", {"name": "list", "args": [("list_type", "or")]})), "other": S(V("l", {"name": "list", "args": None}), V("count"))}),
        "via_fk": S(FK("two"), " ", FK("in_range", {"count": NUM(3)})),
    }}
    cases.append(Case(Project("en", ["en"], files), "c18_nested/0", roles={"*": "formatter_nested"}))
    bad = Project("en", ["en"], {"en": {"k": S(V("v", {"name": "nosuchformatter", "args": None}))}})
    cases.append(Case(bad, "c18_errors/unknown_formatter", expect="error", roles={"*": "unknown_formatter"}))
    return cases


# =========================================================================================== C08
def c08_cases(tier, seed):
    rng = random.Random(8000 + seed)
    cases = []
    kinds = ["str", "interp", "comp", "range", "plural", "num", "fk_rename", "fk_fixed", "fk_comp",
             "show_count", "count_fmt", "plural_silent", "range_silent", "null"]

    def value(kind, l, k, ty):
        m = "%s.%s" % (l, k)
        if kind == "str":
            return S(m + " plain")
        if kind == "interp":
            return S(m + " ", V("a_" + l), " ", V("shared"))
        if kind == "comp":
            return S(Cp("c_" + l, m, V("shared")), Cp("both", "x"))
        if kind == "range":
            return RANGE(ty, [([("exact", 1)], S(m + " one ", V("only_in_branch_" + l))), ("fallback", S(m + " many ", V("count")))])
        if kind == "plural":
            return PLURAL("cardinal", {"one": S(m + " one"), "other": S(m + " other ", V("count"), V("p_" + l))})
        if kind == "num":
            return NUM(12)
        if kind == "fk_rename":
            return S(FK("tr_%s" % (ty or "i32"), {"count": S(V("renamed"))}), " ", V("z"))
        if kind == "show_count":
            return S(m + " shows ", V("count"))                       # `count` used as a plain displayed variable
        if kind == "count_fmt":
            return S(m + " formats ", V("count", {"name": "number", "args": None}))
        if kind == "plural_silent":
            return PLURAL("cardinal", {"one": S(m + " one"), "other": S(m + " other")})     # count never displayed
        if kind == "range_silent":
            return RANGE(ty, [([("exact", 1)], S(m + " one")), ("fallback", S(m + " many"))])
        if kind == "fk_comp":
            # the substituted variable sits inside a component of the target
            return S(FK("tc", {"who": S("fixed " + l), "unused": S("x")}), " ", V("z"))
        if kind == "fk_fixed":
            return S(FK("tr_%s" % (ty or "i32"), {"count": NUM(1.0 if ty in ("f32", "f64") else 1), "who": S("fixed")}))
        return NULL()

    combos = list(itertools.product(kinds[:-1], kinds, kinds))
    rng.shuffle(combos)
    rangeish = {"range", "range_silent", "fk_rename"}
    pluralish = {"plural", "plural_silent"}
    def ok(c):
        # a range and a plural on the same count variable is an error (below); a float count cannot be a plural operand
        # only through Into<PluralOperands>: keep the float range types away from plural / formatter kinds
        return not (set(c) & {"range", "range_silent"} and set(c) & pluralish)
    combos = [c for c in combos if ok(c)]
    # make sure the count-role mixes are present in every tier
    forced = [("show_count", "plural_silent", "str"), ("plural_silent", "show_count", "plural"), ("count_fmt", "plural_silent", "plural"),
              ("plural", "count_fmt", "str"), ("show_count", "range_silent", "null"), ("range_silent", "count_fmt", "show_count"),
              ("plural_silent", "null", "show_count"), ("count_fmt", "str", "plural_silent")]
    combos = forced + [c for c in combos if c not in forced]
    n = 40 if tier == "quick" else 300
    per = 5
    types = [None, "u8", "i64", "u16", "f32"]
    for pi in range(0, n, per):
        locales = ["en", "fr", "de"]
        ty = types[(pi // per) % len(types)]
        files = {l: {"tr_%s" % (ty or "i32"): RANGE(ty, [([("exact", 1)], S(l + " tr one ", V("who"))), ("fallback", S(l + " tr ", V("count"), V("who")))]),
                     "tc": S(l + " tc ", Cp("b", "[", V("who"), "]", Cp("i", V("who"))), " ", V("other"))} for l in locales}
        roles = {}
        for k, combo in enumerate(combos[pi:pi + per]):
            key = "k%d" % k
            for l, kind in zip(locales, combo):
                files[l][key] = value(kind, l, key, ty)
            roles[(None, (key,))] = "mix:" + "/".join(combo)
        cases.append(Case(Project("en", locales, files, inherits={"de": "fr"} if pi % 2 else None), "c08_mix/%d" % (pi // per), roles=roles))
    # conflicts that must be rejected
    r1 = lambda ty: RANGE(ty, [([("exact", 1)], S("a")), ("fallback", S("b"))])
    cases.append(Case(Project("en", ["en", "fr"], {"en": {"k": r1("u8")}, "fr": {"k": r1("i16")}}), "c08_errors/range_type_conflict", expect="error", roles={"*": "range_type_conflict"}))
    cases.append(Case(Project("en", ["en", "fr"], {"en": {"k": r1("u8")}, "fr": {"k": PLURAL("cardinal", {"one": S("x"), "other": S("y")})}}),
                      "c08_errors/range_and_plural", expect="error", roles={"*": "range_and_plural"}))
    return cases
