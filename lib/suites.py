"""Project families per property (the stated grammar bounds of every claim)."""
import itertools
import random

from engine_g import Case
from model import (Project, S, V, Cp, FK, NUM, NULL, SUB, RANGE, PLURAL)

TEXT_ATOMS = [
    "hello", "héllo wörld ✓", "smile 😀 ok", 'quote " and \\ backslash', "line\nbreak\ttab", "  padded  ",
    "curly {x} brace", "gt > sign", "cost $5 (approx)", "a, b | c .. d _", "100%", "nbsp zero​width",
    "#", "ünï", "'single'", "}} alone", "t( not a key", "=", "/slash/", "日本語",
]
VAR_NAMES = ["x", "y", "z", "name", "my_var"]
COMP_NAMES = ["b", "i", "a", "strong", "b2"]


def shapes(depth, maxlen):
    """Sequences over T(ext) V(ar) C(omponent, children) without two adjacent T."""
    atoms = ["T", "V"]
    def seqs(d, n):
        if n == 0:
            yield ()
            return
        for rest in seqs(d, n - 1):
            for a in atoms:
                if a == "T" and rest and rest[-1] == "T":
                    continue
                yield rest + (a,)
            if d > 0:
                for child in children(d - 1):
                    yield rest + (("C", child),)
    def children(d):
        for n in range(0, 3 if d > 0 else 2):
            for s in seqs(d, n):
                yield s
    out = []
    for n in range(1, maxlen + 1):
        out.extend(seqs(depth, n))
    return out


class Namer:
    def __init__(self, marker, rng, same_comp=False):
        self.marker = marker
        self.rng = rng
        self.t = 0
        self.v = 0
        self.c = 0
        self.same_comp = same_comp

    def text(self):
        self.t += 1
        atom = TEXT_ATOMS[self.rng.randrange(len(TEXT_ATOMS))]
        return "%s[%s.%d]" % (atom, self.marker, self.t)

    def var(self):
        self.v += 1
        return VAR_NAMES[(self.v - 1 + self.rng.randrange(2)) % len(VAR_NAMES)]

    def comp(self):
        self.c += 1
        if self.same_comp:
            return COMP_NAMES[0]
        return COMP_NAMES[(self.c - 1 + self.rng.randrange(2)) % len(COMP_NAMES)]


def build_parts(shape, namer):
    parts = []
    for a in shape:
        if a == "T":
            parts.append(namer.text())
        elif a == "V":
            parts.append(V(namer.var()))
        else:
            parts.append(("comp", namer.comp(), S(*build_parts(a[1], namer))[1]))
    return parts


def shape_name(shape):
    out = ""
    for a in shape:
        if isinstance(a, tuple):
            out += "C[%s]" % shape_name(a[1])
        else:
            out += a
    return out


STYLES = [
    {"spaces": True},
    {"spaces": False},
    {"wide_spaces": True, "tag_spaces": True},
    {"spaces": True, "ascii_escapes": True, "reverse_keys": True},
    {"spaces": False, "tag_spaces": True, "reverse_keys": True},
]

LOCALE_SETS = [
    ("en", ["en"]),
    ("en", ["en", "fr"]),
    ("en", ["en", "fr", "de"]),
    ("fr", ["en", "fr"]),          # default not first in the list
    ("en", ["fr", "pt-BR", "en"]),
    ("en", ["en", "en-US", "zh-Hant"]),
]


def c01_cases(tier, seed):
    rng = random.Random(1000 + seed)
    all_shapes = shapes(2, 3) if tier == "quick" else shapes(3, 4)
    deep = [
        ("C", (("C", (("C", ("T",)),)),)),                       # depth 3
        ("C", ("T", ("C", ("V",)), "T")),
    ]
    special = [
        ("T", ("C", ("T",)), "T", ("C", ("T",)), "T", ("C", ("T",)), "T"),   # three components in one string
        ("V", ("C", ("T",))),                                     # variable adjacent to tag
        (("C", ("T",)), "V"),
        (("C", ("T",)), "T"),                                     # text after the last tag
        ("V", "V", "V"),
        (deep[0],), (deep[1],),
        ("T", "V", "T", "V", "T", "V", "T"),
    ]
    rng.shuffle(all_shapes)
    if tier == "quick":
        pool = special + all_shapes[:150]
    else:
        pool = special + all_shapes[:1500]
    cases = []
    # ---- interpolated strings: 6 keys per project, every locale gets its own shape for each key
    per = 6
    i = 0
    pi = 0
    while i < len(pool):
        default, locales = LOCALE_SETS[pi % len(LOCALE_SETS)]
        style = STYLES[pi % len(STYLES)]
        files = {l: {} for l in locales}
        roles = {}
        for k in range(per):
            key = "k%d" % k
            if k == 3:
                key = "key-%d" % k     # '-' in a key name
            for li, l in enumerate(locales):
                shape = pool[(i + k + li * 7) % len(pool)]
                same = (pi + k) % 5 == 0
                namer = Namer("%s.%s" % (l, key), rng, same_comp=same)
                files[l][key] = S(*build_parts(shape, namer))
                if l == default:
                    roles[(None, (key,))] = "interp:" + shape_name(shape)
        cases.append(Case(Project(default, locales, files, style=style), "c01_interp/%d" % pi, roles=roles))
        i += per
        pi += 1
    # ---- literals of every JSON type, mixed types across locales, duplicates sharing one table slot
    lit_values = [S("plain text"), NUM(42), NUM(-7), NUM(2.5), NUM(0), ("bool", True), ("bool", False), S(""), NUM(18446744073709551615), NUM(-9223372036854775808), NUM(100.0)]
    for j, (default, locales) in enumerate(LOCALE_SETS[:4]):
        files = {l: {} for l in locales}
        roles = {}
        for k, v in enumerate(lit_values):
            key = "lit%d" % k
            for li, l in enumerate(locales):
                if li == 0 or (k + j) % 3 == 0:
                    files[l][key] = v if v[0] != "str" else S(v[1][0][1] + " " + l if v[1] else "")
                else:
                    files[l][key] = lit_values[(k + li) % len(lit_values)]   # other type in other locale
            roles[(None, (key,))] = "literal"
        # the same string in several keys (one string-table slot, several readers)
        for l in locales:
            files[l]["dup_a"] = S("shared text")
            files[l]["dup_b"] = S("shared text")
            files[l]["dup_c"] = S("shared text", V("x"), "shared text")
        cases.append(Case(Project(default, locales, files, style=STYLES[j % len(STYLES)]), "c01_literals/%d" % j, roles=roles))
    # ---- subkeys (depth 2) and namespaces
    for j, (default, locales) in enumerate(LOCALE_SETS[1:5]):
        def tree(l, tagp):
            n = Namer("%s.%s" % (l, tagp), rng)
            return {
                "top": S(n.text()),
                "grp": SUB({
                    "top": S(n.text()),            # same leaf name as at the top level
                    "inner": SUB({"top": S(n.text(), V("x")), "leaf": S(Cp("b", n.text()))}),
                    "v": S(V("x"), n.text()),
                }),
                "grp2": SUB({"top": S(n.text()), "leaf": NUM(3)}),
            }
        files = {l: tree(l, "t") for l in locales}
        cases.append(Case(Project(default, locales, files, style=STYLES[j % len(STYLES)]), "c01_subkeys/%d" % j, roles={"*": "subkeys"}))
        nsfiles = {ns: {l: tree(l, ns) for l in locales} for ns in ("common", "home")}
        cases.append(Case(Project(default, locales, nsfiles, namespaces=["common", "home"], style=STYLES[(j + 1) % len(STYLES)]),
                          "c01_namespaces/%d" % j, roles={"*": "namespaces"}))
    if tier != "quick":
        # > 26 pieces in one value (tuple chunking) and > 16 locales (nested EitherOf)
        big = []
        n = Namer("en.big", rng)
        for q in range(40):
            big.append(n.text())
            big.append(V("v%d" % (q % 7)))
        many = ["en"] + ["l%c%c" % (chr(97 + q // 26), chr(97 + q % 26)) for q in range(19)]
        files = {l: {"big": S(*big), "small": S("s " + l, V("x"))} for l in many}
        cases.append(Case(Project("en", many, files), "c01_large/0", roles={"*": "large"}))
    return cases
