"""Driver for the properties decided by engine G."""
import json
import os
import sys
import time

import engine_g
import hostrun
import replay
import report

MAX_REPLAYS = 4

COMMON_ASSUMPTIONS = [
    "the set of projects is enumerated from the stated grammar, not symbolic; the solver quantifies over locale, argument strings, component functions, counts and plural categories per project",
    "rustc type checking of the generated code and typed_builder are trusted: `.var_x(v)` stores v in field var_x, build() needs every field",
    "library calls have fixed meanings: index_translations::<N,I>(T)=T[I] (N must equal the table length), Either*/EitherOf*::X(v) renders v, tuples render in order, a closure in view position is called once, Display::fmt(&e,f) appends e, DisplayComponent::fmt(c,f,body)=comp_c(body), format_X_to_*(locale,v,opts)=fmt_X(locale,v,opts), get_plural_rules(l,r).category_for(c)=cat(l,r,c)",
    "leptos' own rendering (HTML escaping, hydration markers) and ICU4X outputs are not modelled",
    "Locale::get_keys(l) / I18nContext::get_keys(ctx) are read as <Keys as LocaleKeys>::from_locale(locale)",
]


def is_view_flavour(f):
    return f.flavour == "view" or (f.flavour or "").endswith("_view")


def confirm(prop, f, cldr):
    """Native confirmation of one finding. Returns (status, replay_path) with status in
    confirmed | not_reproduced | encoder_mismatch | unreplayable."""
    payload = {"finding": f.to_json()}
    name = "%s_%s" % (f.case.tag.replace("/", "_"), "_".join(f.key or ["project"]))
    if f.kind in ("valid_project_rejected", "invalid_project_accepted", "loader_panic", "key_missing"):
        # these come from the real parser + code generator run concretely on the files in f.case.dir
        import subprocess
        p = subprocess.run([hostrun.HOST_BIN, "eval", f.case.dir], capture_output=True, text=True, env=hostrun.ENV)
        try:
            j = json.loads(p.stdout)
            payload["rerun_status"] = j.get("status")
            payload["rerun_error"] = j.get("error") or j.get("panic")
        except Exception:
            payload["rerun_status"] = "crash"
        ok = {"valid_project_rejected": payload["rerun_status"] == "error",
              "invalid_project_accepted": payload["rerun_status"] == "ok",
              "loader_panic": payload["rerun_status"] in ("panic", "crash"),
              "key_missing": payload["rerun_status"] == "ok"}[f.kind]
        payload["how_to_replay"] = "%s eval %s" % (hostrun.HOST_BIN, f.case.dir)
        path = report.write_replay(prop, name, payload)
        return ("confirmed" if ok else "not_reproduced"), path
    if getattr(f, "reconfirm", None) is not None:
        ok, extra = f.reconfirm(f)
        payload.update(extra)
        path = report.write_replay(prop, name, payload)
        return ("confirmed" if ok else "not_reproduced"), path
    if f.kind == "scoped_keys_differ":
        # natively: the same leaf read through scope_locale!(locale, prefix) and directly, for every locale
        import subprocess
        try:
            h = json.loads(subprocess.run([hostrun.HOST_BIN, "eval", f.case.dir], capture_output=True, text=True, env=hostrun.ENV).stdout)
        except Exception as e:
            payload["replay_error"] = str(e)
            return "unreplayable", report.write_replay(prop, name, payload)
        prefix = list(f.key)
        leafs = [k for k in h.get("keys", []) if k["path"][:len(prefix)] == prefix and k.get("kind") in ("builder", "lit") and len(k["path"]) == len(prefix) + 1]
        reqs = []
        for k in leafs[:3]:
            if "fmt_" in json.dumps(k.get("string") or k.get("lit")):
                continue
            nums = {}
            for fld in k.get("fields", []):
                b = " ".join((k.get("bounds") or {}).get("__%s__" % fld, []))
                if "InterpolateRangeCount<" in b:
                    nums[fld] = {"ty": b.split("InterpolateRangeCount<")[1].split(">")[0], "v": 1}
                elif "InterpolatePluralCount" in b:
                    nums[fld] = {"ty": "plural", "v": 1}
            for loc in h["locales"]:
                base = {"locale": loc, "path": k["path"], "fields": k.get("fields", []), "strings": {}, "nums": nums}
                reqs.append(dict(base))
                reqs.append(dict(base, scope_depth=len(prefix)))
        try:
            outs = replay.run_requests(f.case.dir, reqs)
        except replay.ReplayError as e:
            payload["replay_error"] = str(e)[-1500:]
            return "unreplayable", report.write_replay(prop, name, payload)
        diffs = [{"request": reqs[i + 1], "direct": outs[i], "scoped": outs[i + 1]} for i in range(0, len(outs), 2) if outs[i] != outs[i + 1]]
        payload["scoped_vs_direct"] = diffs[:6]
        payload["how_to_replay"] = "td_string!(scope_locale!(Locale::x, %s), leaf) vs td_string!(Locale::x, %s.leaf) in the replay crate" % (".".join(prefix), ".".join(prefix))
        return ("confirmed" if diffs else "not_reproduced"), report.write_replay(prop, name, payload)
    if f.kind in ("required_args_differ", "count_bound_differs", "generated_code_rejected_by_rustc"):
        # rustc is the oracle: a crate that expands load_locales!() on the project and supplies exactly the arguments the
        # source requires must compile
        reqs = []
        if f.kind != "generated_code_rejected_by_rustc" and f.hk is not None:
            want = (f.detail or {}).get("required_by_source") or f.hk.get("fields", [])
            nums = {}
            for fld in want:
                b = " ".join((f.hk.get("bounds") or {}).get("__%s__" % fld, []))
                if "InterpolateRangeCount<" in b:
                    nums[fld] = {"ty": b.split("InterpolateRangeCount<")[1].split(">")[0], "v": 1}
                elif "InterpolatePluralCount" in b:
                    nums[fld] = {"ty": "plural", "v": 1}
            reqs = [{"locale": (f.case.project.ident(f.case.project.default)), "path": f.hk.get("path", f.key), "fields": want, "strings": {}, "nums": nums}]
        try:
            out = replay.run_requests(f.case.dir, reqs)
            payload["native"] = {"compiled": True, "output": out}
            path = report.write_replay(prop, name, payload)
            return "not_reproduced", path
        except replay.ReplayError as e:
            payload["native"] = {"compiled": False, "rustc": str(e)[-1800:]}
            payload["how_to_replay"] = "cd %s && cargo build   (crate written from %s)" % (replay.CRATE, f.case.dir)
            path = report.write_replay(prop, name, payload)
            return "confirmed", path
    if f.kind == "native_validation_differs":
        payload.update(f.detail)
        payload["how_to_replay"] = "lib/replay.py run_requests(%r, [request])" % f.case.dir
        return "confirmed", report.write_replay(prop, name, payload)
    if f.kind != "text_differs":
        path = report.write_replay(prop, name, payload)
        return "unreplayable", path
    m = f.model
    hk = f.hk or {}
    fields = hk.get("fields", [])
    if any("fmt_" in json.dumps(t) for t in (f.ref, f.gen)):
        # formatted values: compare the real td_string! output with direct uncached ICU4X calls using the options the
        # reference prescribes (lib/c18native.py), for every locale of the project
        import c18native
        import subprocess
        try:
            p = subprocess.run([hostrun.HOST_BIN, "eval", f.case.dir], capture_output=True, text=True, env=hostrun.ENV)
            h = json.loads(p.stdout)
            n, bad = c18native.run_project(f.case, h, cldr)
        except Exception as e:
            payload["replay_error"] = str(e)[-1500:]
            path = report.write_replay(prop, name, payload)
            return "unreplayable", path
        mine = [b for b in bad if b["key"] == list(f.key)]
        payload["native_icu_comparison"] = {"requests": n, "mismatches_for_this_key": mine[:4], "other_mismatches": len(bad) - len(mine)}
        payload["how_to_replay"] = "cd %s && cargo run   (crate written by lib/c18native.py from %s)" % (replay.CRATE, f.case.dir)
        path = report.write_replay(prop, name, payload)
        return ("confirmed" if mine else "not_reproduced"), path
    nums = {}
    for name_, n in m.get("nums", {}).items():
        nums[name_] = dict(n)
    env = {"locale": m["locale"], "strings": m.get("strings", {}), "nums": nums, "cat": cldr.category}
    for n in nums.values():
        if n["ty"] in ("f32", "f64"):
            v = n["v"]
            if isinstance(v, str) and "/" in v:
                a, b = v.split("/")
                n["v"] = int(a) / int(b)
            elif isinstance(v, str) and v not in ("NaN", "inf", "-inf"):
                n["v"] = float(v)
            elif v == "NaN":
                n["v"] = float("nan")
            elif v == "inf":
                n["v"] = float("inf")
            elif v == "-inf":
                n["v"] = float("-inf")
            fv = n["v"]
            n["shown"] = str(int(fv)) if fv == fv and abs(fv) < 1e15 and fv == int(fv) else repr(fv)
    # map the solver's locale name (enum ident) and build the request
    is_view = f.flavour == "view" or (f.flavour or "").endswith("_view")
    macro = "td_display" if f.flavour == "display" else ("td_view" if is_view else "td_string")
    if is_view:
        # leptos renders an empty text node as a blank: use visible values for empty strings in view replays
        pass
    hostpath = hk.get("path", f.key)
    if is_view_flavour(f):
        env["strings"] = {k: (v if v != "" else "\u2205") for k, v in env["strings"].items()}
    req = {"locale": m["locale"], "path": hostpath, "fields": fields, "strings": env["strings"],
           "nums": {k: {"ty": v["ty"], "v": v["v"]} for k, v in nums.items()}, "macro": macro}
    payload["request"] = req
    # the solver's model fixes the plural category function arbitrarily; under the real CLDR rules another count may be
    # needed to tell the two sides apart: replay the model's values first, then a few alternative counts
    variants = [env]
    plural_fields = [k for k, v in nums.items() if v["ty"] == "plural"]
    for pf in plural_fields:
        for cand in (0, 1, 2, 3, 5, 11, 21, 22, 23, 100):
            e2 = dict(env)
            e2["nums"] = {k: dict(v) for k, v in nums.items()}
            e2["nums"][pf]["v"] = cand
            variants.append(e2)
    for l in (hk.get("locales_hint") or []):
        pass
    reqs = []
    for e in variants:
        r = dict(req)
        r["nums"] = {k: {"ty": v["ty"], "v": v["v"]} for k, v in e["nums"].items()}
        reqs.append(r)
    try:
        actuals = replay.run_requests(f.case.dir, reqs)
        if is_view:
            actuals = [replay.normalise_view(a, fields) for a in actuals]
        triples = []
        for e, actual in zip(variants, actuals):
            triples.append((replay.eval_term(f.ref, e), replay.eval_term(f.gen, e), actual))
    except replay.ReplayError as e:
        payload["replay_error"] = str(e)[-1500:]
        # does the crate build at all with nothing but load_locales!() ? if not, the generated code itself is rejected by rustc
        try:
            replay.run_requests(f.case.dir, [])
        except replay.ReplayError as e2:
            payload["native"] = {"compiled": False, "rustc": str(e2)[-1800:], "note": "a crate containing only leptos_i18n::load_locales!() on this valid project does not compile"}
            path = report.write_replay(prop, name, payload)
            return "confirmed", path
        path = report.write_replay(prop, name, payload)
        return "unreplayable", path
    expected, predicted, actual = triples[0]
    for i, (ex, pr, ac) in enumerate(triples):
        if ac != pr:
            expected, predicted, actual = ex, pr, ac
            payload["request"] = reqs[i]
            break
        if ac != ex:
            expected, predicted, actual = ex, pr, ac
            payload["request"] = reqs[i]
            break
    payload.update({"expected_by_reference": expected, "predicted_by_evaluator": predicted, "real_output": actual,
                    "how_to_replay": "cd %s && cargo run  (crate written by lib/replay.py from %s)" % (replay.CRATE, f.case.dir)})
    path = report.write_replay(prop, name, payload)
    if actual != predicted:
        return "encoder_mismatch", path
    if actual != expected:
        return "confirmed", path
    return "not_reproduced", path


def count_candidates(ty):
    if ty in ("f32", "f64"):
        return [0.0, 0.5, 2.0, -1.5]
    if ty == "plural":
        return [0, 1, 2, 5, 21]
    if ty.startswith("u"):
        return [0, 1, 3, 200]
    return [0, 1, -1, 100]


def validate_natively(prop, cases, results, cldr, limit, per_project=False):
    """Concrete runs of the real crate (one process per project, every key x locale x a few arguments) against
    (a) the evaluator's term evaluated concretely: validates the encoder and the fixed meanings of library calls,
    (b) the reference denotation evaluated concretely.
    Returns (n_requests, encoder_mismatches, violations[(case, payload)])."""
    import smt
    done_families = set()
    total = 0
    mismatches = []
    violations = []
    for c in cases:
        fam = c.tag if per_project else c.tag.split("/")[0]
        if fam in done_families or len(done_families) >= limit:
            continue
        h = results.get(c.dir)
        if not h or h.get("status") != "ok" or c.expect != "ok":
            continue
        proj = c.project
        reqs, meta = [], []
        try:
            leafs = proj.leaf_keys()
        except Exception:
            continue
        for ns, path in leafs:
            hk = engine_g.host_key(h, ns, path)
            if not hk or hk.get("kind") not in ("builder", "lit"):
                continue
            gen = hk["string"] if hk["kind"] == "builder" else hk["lit"]
            try:
                ref = proj.denote_key(ns, path)
            except Exception:
                continue
            if "err" in gen or "fmt_" in json.dumps(gen) or "fmt_" in json.dumps(ref):
                continue
            acc = {}
            smt.collect_num_types(gen, acc)
            fields = hk.get("fields", [])
            bounds = hk.get("bounds", {})
            count_fields = {}
            for f in fields:
                b = " ".join(bounds.get("__%s__" % f, []))
                if "InterpolatePluralCount" in b:
                    count_fields[f] = "plural"
                elif "InterpolateRangeCount<" in b:
                    count_fields[f] = b.split("InterpolateRangeCount<")[1].split(">")[0]
            combos = [{}]
            for f, ty in count_fields.items():
                combos = [dict(cm, **{f: {"ty": ty, "v": v}}) for cm in combos for v in count_candidates(ty)][:8]
            for loc in h["locales"]:
                for nums in combos:
                    strings = {f: "<%s@%s>" % (f, loc) for f in fields if f.startswith("var_") and f not in nums}
                    env = {"locale": loc, "strings": strings, "nums": {k: dict(v) for k, v in nums.items()}, "cat": cldr.category}
                    for n in env["nums"].values():
                        if n["ty"] in ("f32", "f64"):
                            fv = n["v"]
                            n["shown"] = ("-0" if (fv == 0 and str(fv).startswith("-")) else str(int(fv))) if fv == int(fv) else repr(fv)
                    reqs.append({"locale": loc, "path": hk["path"], "fields": fields, "strings": strings,
                                 "nums": {k: {"ty": v["ty"], "v": v["v"]} for k, v in nums.items()}, "macro": "td_string"})
                    meta.append((ns, path, env, gen, ref))
                    if any(f.startswith("comp_") for f in fields) and loc == h["locales"][0] and nums is combos[0]:
                        # the component forms the library itself provides (leptos_i18n/src/display.rs)
                        for ck in ("str", "string", "dc0", "dc1", "dc2", "dc3"):
                            for mac in ("td_string", "td_display"):
                                reqs.append(dict(reqs[-1] if False else {"locale": loc, "path": hk["path"], "fields": fields, "strings": strings,
                                                 "nums": {k: {"ty": v["ty"], "v": v["v"]} for k, v in nums.items()}}, macro=mac, comp_kind=ck))
                                meta.append((ns, path, dict(env, comp=ck), gen, ref))
        if not reqs:
            continue
        done_families.add(fam)
        reqs, meta = reqs[:700], meta[:700]
        try:
            actuals = replay.run_requests(c.dir, reqs)
        except replay.ReplayError as e:
            # is it the generated code itself that rustc rejects ?
            try:
                replay.run_requests(c.dir, [])
                mismatches.append((c.tag, "replay crate failed: %s" % str(e)[-600:]))
            except replay.ReplayError as e2:
                violations.append((c, {"key": [], "ns": None, "request": None, "rustc": str(e2)[-1500:],
                                       "note": "a crate containing only leptos_i18n::load_locales!() on this valid project does not compile (found by the native stage)"}))
            continue
        for r, (ns, path, env, gen, ref), actual in zip(reqs, meta, actuals):
            total += 1
            try:
                predicted = replay.eval_term(gen, env)
                expected = replay.eval_term(ref, env)
            except replay.ReplayError:
                continue
            if actual != expected:
                violations.append((c, {"request": r, "real_output": actual, "expected_by_reference": expected, "predicted_by_evaluator": predicted,
                                       "key": list(path), "ns": ns, "note": "found by native validation (concrete run of the real crate), not by the solver"}))
            elif actual != predicted:
                mismatches.append((c.tag, "%s: real %r, evaluator %r" % (".".join(path), actual, predicted)))
    return total, mismatches, violations


def run_property(prop, tier, seed, cases, mode, functions_encoded, bounds, extra_assumptions=(), extra_key_check=None,
                 side_results=None, level="translation_validation", post=None, validate=None, validate_per_project=False):
    t0 = time.time()
    try:
        hostrun.build_host()
    except hostrun.BuildFailed as e:
        print("INCONCLUSIVE property=%s verif-host does not build against the current tree:\n%s" % (prop, e))
        return 2
    cldr = hostrun.Cldr()
    stats, findings = engine_g.run(prop, cases, flavours_mode=mode, run_name="%s_%s" % (prop, tier), cldr=cldr,
                                   extra_key_check=extra_key_check,
                                   timeout_ms=20000 if tier == "quick" else 60000,
                                   solver_diff=(4 if tier == "quick" else 30))
    # keys the evaluator could not handle: ask rustc whether the generated code is valid at all
    seen_cases = set()
    for c, path, ns, why in stats.eval_errors:
        if c.tag in seen_cases or len(seen_cases) >= 2 or c.expect != "ok":
            continue
        seen_cases.add(c.tag)
        findings.append(engine_g.Finding(prop, "generated_code_rejected_by_rustc", c, key=path, ns=ns, detail={"evaluator": why},
                                         role=c.roles.get((ns, tuple(path))) or c.roles.get("*")))
    if validate is None:
        validate = 3 if tier == "quick" else 8
    val_total, val_mismatch, val_viol = (0, [], [])
    known_now = report.load_known()
    unknown_findings = [f for f in findings if report.matches(f.signature(), known_now, prop) is None]
    if validate and not unknown_findings:
        val_total, val_mismatch, val_viol = validate_natively(prop, cases, stats.host_results, cldr, validate, validate_per_project)
        for tag, why in val_mismatch:
            stats.inconclusive.append((tag, "ENCODER-MISMATCH " + why))
        for c, payload in val_viol[:50]:
            findings.append(engine_g.Finding(prop, "native_validation_differs", c, key=payload["key"], ns=payload["ns"],
                                             detail=payload, role=c.roles.get((payload["ns"], tuple(payload["key"]))) or c.roles.get("*")))
    if post is not None:
        findings.extend(post(cases, stats) or [])
    known = report.load_known()
    by_sig = {}
    for f in findings:
        by_sig.setdefault(json.dumps(f.signature(), sort_keys=True), []).append(f)
    violations = 0
    known_hits = {}
    replays_done = 0
    confirmed = []
    not_repro = []
    for sig_s, fs in sorted(by_sig.items()):
        sig = json.loads(sig_s)
        k = report.matches(sig, known, prop)
        if k is not None:
            known_hits.setdefault(k["id"], (k, 0))
            known_hits[k["id"]] = (k, known_hits[k["id"]][1] + len(fs))
            continue
        if replays_done >= MAX_REPLAYS:
            not_repro.append((fs[0], "replay budget exhausted"))
            continue
        status, path = None, None
        for f in fs[:2]:
            replays_done += 1
            status, path = confirm(prop, f, cldr)
            if status == "confirmed":
                break
        if status == "confirmed":
            violations += 1
            confirmed.append((fs[0], path, len(fs)))
        else:
            not_repro.append((fs[0], status + " " + str(path)))
    cldr.close()
    wall = time.time() - t0
    coverage = {
        "programs": stats.projects,
        "disagreements_checked": replays_done,
        "samples": stats.samples[:6] or [{"note": "no key evaluated"}],
        "projects_loaded": stats.projects_ok,
        "projects_rejected_as_expected": stats.projects_rejected_as_expected,
        "keys_decided": stats.keys,
        "queries": stats.queries,
        "queries_unsat": stats.unsat,
        "queries_sat": stats.sat,
        "scoped_key_structs_checked": getattr(stats, "scope_ok", None),
        "vacuity_twins": stats.twins,
        "vacuity_twins_sat": stats.twins_sat,
        "vacuity_twins_without_answer": getattr(stats, "twins_unknown", 0),
        "distinct_reference_shapes": len(stats.shapes),
        "undecided_by_property_text": stats.undecided,
        "inconclusive": [list(x) for x in stats.inconclusive[:20]],
        "inconclusive_count": len(stats.inconclusive),
        "solver": "z3 %s (python API), one process per query batch" % __import__("z3").get_version_string(),
        "solver_s": round(stats.solver_s, 3),
        "codegen_ms_total": round(stats.gen_ms, 1),
        "symbolic_eval_ms_total": round(stats.eval_ms, 1),
        "native_validation_requests": val_total,
        "second_solver_opinion": stats.solver_diff,
        "functions_encoded": functions_encoded,
        "bounds": bounds,
        "known_findings_hit": {k: n for k, (_, n) in known_hits.items()},
        "findings_not_reproduced": [(f.to_json()["case"], why) for f, why in not_repro][:10],
    }
    if side_results or getattr(stats, "side", None):
        coverage["side_conditions"] = side_results or stats.side
    report.write_evidence(prop, tier, seed, level, coverage, wall, COMMON_ASSUMPTIONS + list(extra_assumptions), violations)
    print("property=%s tier=%s projects=%d loaded=%d keys=%d queries=%d unsat=%d sat=%d twins=%d/%d inconclusive=%d undecided=%d solver_s=%.2f wall_s=%.1f" % (
        prop, tier, stats.projects, stats.projects_ok, stats.keys, stats.queries, stats.unsat, stats.sat, stats.twins_sat, stats.twins,
        len(stats.inconclusive), stats.undecided, stats.solver_s, wall))
    for kid, (k, n) in sorted(known_hits.items()):
        print("KNOWN-FINDING: property=%s %s (%d occurrences this run)" % (prop, k.get("description", kid), n))
    for f, path, n in confirmed:
        print("VIOLATION property=%s replay=%s" % (prop, path))
        print("  %s case=%s key=%s flavour=%s detail=%s (+%d similar)" % (f.kind, f.case.tag, ".".join(f.key or []), f.flavour,
                                                                         json.dumps(f.detail, ensure_ascii=False)[:300], n - 1))
    if violations:
        return 1
    bad = False
    for f, why in not_repro:
        bad = True
        print("UNCONFIRMED property=%s %s case=%s key=%s flavour=%s: %s" % (prop, f.kind, f.case.tag, ".".join(f.key or []), f.flavour, why))
    if stats.inconclusive:
        bad = True
        for tag, why in stats.inconclusive[:10]:
            print("INCONCLUSIVE property=%s %s: %s" % (prop, tag, why))
    if stats.twins != stats.twins_sat:
        bad = True
        print("INCONCLUSIVE property=%s vacuity twins: %d of %d distinguishable" % (prop, stats.twins_sat, stats.twins))
    if stats.keys == 0:
        bad = True
        print("INCONCLUSIVE property=%s no key was decided" % prop)
    return 2 if bad else 0
