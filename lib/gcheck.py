"""Driver for the properties decided by engine G."""
import json
import os
import sys
import time

import engine_g
import hostrun
import replay
import report

MAX_REPLAYS = 4

COMMON_ASSUMPTIONS = [
    "the set of projects is enumerated from the stated grammar, not symbolic; the solver quantifies over locale, argument strings, component functions, counts and plural categories per project",
    "rustc type checking of the generated code and typed_builder are trusted: `.var_x(v)` stores v in field var_x, build() needs every field",
    "library calls have fixed meanings: index_translations::<N,I>(T)=T[I] (N must equal the table length), Either*/EitherOf*::X(v) renders v, tuples render in order, a closure in view position is called once, Display::fmt(&e,f) appends e, DisplayComponent::fmt(c,f,body)=comp_c(body), format_X_to_*(locale,v,opts)=fmt_X(locale,v,opts), get_plural_rules(l,r).category_for(c)=cat(l,r,c)",
    "leptos' own rendering (HTML escaping, hydration markers) and ICU4X outputs are not modelled",
    "Locale::get_keys(l) / I18nContext::get_keys(ctx) are read as <Keys as LocaleKeys>::from_locale(locale)",
]


def confirm(prop, f, cldr):
    """Native confirmation of one finding. Returns (status, replay_path) with status in
    confirmed | not_reproduced | encoder_mismatch | unreplayable."""
    payload = {"finding": f.to_json()}
    name = "%s_%s" % (f.case.tag.replace("/", "_"), "_".join(f.key or ["project"]))
    if f.kind in ("valid_project_rejected", "invalid_project_accepted", "loader_panic", "key_missing"):
        # these come from the real parser + code generator run concretely on the files in f.case.dir
        import subprocess
        p = subprocess.run([hostrun.HOST_BIN, "eval", f.case.dir], capture_output=True, text=True, env=hostrun.ENV)
        try:
            j = json.loads(p.stdout)
            payload["rerun_status"] = j.get("status")
            payload["rerun_error"] = j.get("error") or j.get("panic")
        except Exception:
            payload["rerun_status"] = "crash"
        ok = {"valid_project_rejected": payload["rerun_status"] == "error",
              "invalid_project_accepted": payload["rerun_status"] == "ok",
              "loader_panic": payload["rerun_status"] in ("panic", "crash"),
              "key_missing": payload["rerun_status"] == "ok"}[f.kind]
        payload["how_to_replay"] = "%s eval %s" % (hostrun.HOST_BIN, f.case.dir)
        path = report.write_replay(prop, name, payload)
        return ("confirmed" if ok else "not_reproduced"), path
    if f.kind != "text_differs":
        path = report.write_replay(prop, name, payload)
        return "unreplayable", path
    m = f.model
    hk = f.hk or {}
    fields = hk.get("fields", [])
    if any("fmt_" in json.dumps(t) for t in (f.ref, f.gen)):
        path = report.write_replay(prop, name, payload)
        return "unreplayable", path
    nums = {}
    for name_, n in m.get("nums", {}).items():
        nums[name_] = dict(n)
    env = {"locale": m["locale"], "strings": m.get("strings", {}), "nums": nums, "cat": cldr.category}
    for n in nums.values():
        if n["ty"] in ("f32", "f64"):
            v = n["v"]
            if isinstance(v, str) and "/" in v:
                a, b = v.split("/")
                n["v"] = int(a) / int(b)
            elif isinstance(v, str) and v not in ("NaN", "inf", "-inf"):
                n["v"] = float(v)
            elif v == "NaN":
                n["v"] = float("nan")
            elif v == "inf":
                n["v"] = float("inf")
            elif v == "-inf":
                n["v"] = float("-inf")
            fv = n["v"]
            n["shown"] = str(int(fv)) if fv == fv and abs(fv) < 1e15 and fv == int(fv) else repr(fv)
    # map the solver's locale name (enum ident) and build the request
    macro = "td_display" if f.flavour == "display" else "td_string"
    hostpath = hk.get("path", f.key)
    req = {"locale": m["locale"], "path": hostpath, "fields": fields, "strings": env["strings"],
           "nums": {k: {"ty": v["ty"], "v": v["v"]} for k, v in nums.items()}, "macro": macro}
    payload["request"] = req
    try:
        expected = replay.eval_term(f.ref, env)
        predicted = replay.eval_term(f.gen, env)
        actual = replay.run_requests(f.case.dir, [req])[0]
    except replay.ReplayError as e:
        payload["replay_error"] = str(e)
        path = report.write_replay(prop, name, payload)
        return "unreplayable", path
    payload.update({"expected_by_reference": expected, "predicted_by_evaluator": predicted, "real_output": actual,
                    "how_to_replay": "cd %s && cargo run  (crate written by lib/replay.py from %s)" % (replay.CRATE, f.case.dir)})
    path = report.write_replay(prop, name, payload)
    if f.flavour in ("view",) or (f.flavour or "").endswith("_view"):
        # the view back-end is not what td_string! runs; confirm only if the Display back-end shows it too
        if actual != expected:
            return "confirmed", path
        return "unreplayable", path
    if actual != predicted:
        return "encoder_mismatch", path
    if actual != expected:
        return "confirmed", path
    return "not_reproduced", path


def run_property(prop, tier, seed, cases, mode, functions_encoded, bounds, extra_assumptions=(), extra_key_check=None,
                 side_results=None, level="translation_validation", post=None):
    t0 = time.time()
    try:
        hostrun.build_host()
    except hostrun.BuildFailed as e:
        print("INCONCLUSIVE property=%s verif-host does not build against the current tree:\n%s" % (prop, e))
        return 2
    cldr = hostrun.Cldr()
    stats, findings = engine_g.run(prop, cases, flavours_mode=mode, run_name="%s_%s" % (prop, tier), cldr=cldr,
                                   extra_key_check=extra_key_check,
                                   timeout_ms=20000 if tier == "quick" else 60000)
    if post is not None:
        findings.extend(post(cases, stats) or [])
    known = report.load_known()
    by_sig = {}
    for f in findings:
        by_sig.setdefault(json.dumps(f.signature(), sort_keys=True), []).append(f)
    violations = 0
    known_hits = {}
    replays_done = 0
    confirmed = []
    not_repro = []
    for sig_s, fs in sorted(by_sig.items()):
        sig = json.loads(sig_s)
        k = report.matches(sig, known, prop)
        if k is not None:
            known_hits.setdefault(k["id"], (k, 0))
            known_hits[k["id"]] = (k, known_hits[k["id"]][1] + len(fs))
            continue
        if replays_done >= MAX_REPLAYS:
            not_repro.append((fs[0], "replay budget exhausted"))
            continue
        status, path = None, None
        for f in fs[:2]:
            replays_done += 1
            status, path = confirm(prop, f, cldr)
            if status == "confirmed":
                break
        if status == "confirmed":
            violations += 1
            confirmed.append((fs[0], path, len(fs)))
        else:
            not_repro.append((fs[0], status + " " + str(path)))
    cldr.close()
    wall = time.time() - t0
    coverage = {
        "programs": stats.projects,
        "disagreements_checked": replays_done,
        "samples": stats.samples[:6] or [{"note": "no key evaluated"}],
        "projects_loaded": stats.projects_ok,
        "projects_rejected_as_expected": stats.projects_rejected_as_expected,
        "keys_decided": stats.keys,
        "queries": stats.queries,
        "queries_unsat": stats.unsat,
        "queries_sat": stats.sat,
        "vacuity_twins": stats.twins,
        "vacuity_twins_sat": stats.twins_sat,
        "distinct_reference_shapes": len(stats.shapes),
        "undecided_by_property_text": stats.undecided,
        "inconclusive": [list(x) for x in stats.inconclusive[:20]],
        "inconclusive_count": len(stats.inconclusive),
        "solver": "z3 %s (python API), one process per query batch" % __import__("z3").get_version_string(),
        "solver_s": round(stats.solver_s, 3),
        "codegen_ms_total": round(stats.gen_ms, 1),
        "symbolic_eval_ms_total": round(stats.eval_ms, 1),
        "functions_encoded": functions_encoded,
        "bounds": bounds,
        "known_findings_hit": {k: n for k, (_, n) in known_hits.items()},
        "findings_not_reproduced": [(f.to_json()["case"], why) for f, why in not_repro][:10],
    }
    if side_results:
        coverage["side_conditions"] = side_results
    report.write_evidence(prop, tier, seed, level, coverage, wall, COMMON_ASSUMPTIONS + list(extra_assumptions), violations)
    print("property=%s tier=%s projects=%d loaded=%d keys=%d queries=%d unsat=%d sat=%d twins=%d/%d inconclusive=%d undecided=%d solver_s=%.2f wall_s=%.1f" % (
        prop, tier, stats.projects, stats.projects_ok, stats.keys, stats.queries, stats.unsat, stats.sat, stats.twins_sat, stats.twins,
        len(stats.inconclusive), stats.undecided, stats.solver_s, wall))
    for kid, (k, n) in sorted(known_hits.items()):
        print("KNOWN-FINDING: property=%s %s (%d occurrences this run)" % (prop, k.get("description", kid), n))
    for f, path, n in confirmed:
        print("VIOLATION property=%s replay=%s" % (prop, path))
        print("  %s case=%s key=%s flavour=%s detail=%s (+%d similar)" % (f.kind, f.case.tag, ".".join(f.key or []), f.flavour,
                                                                         json.dumps(f.detail, ensure_ascii=False)[:300], n - 1))
    if violations:
        return 1
    bad = False
    for f, why in not_repro:
        bad = True
        print("UNCONFIRMED property=%s %s case=%s key=%s flavour=%s: %s" % (prop, f.kind, f.case.tag, ".".join(f.key or []), f.flavour, why))
    if stats.inconclusive:
        bad = True
        for tag, why in stats.inconclusive[:10]:
            print("INCONCLUSIVE property=%s %s: %s" % (prop, tag, why))
    if stats.twins != stats.twins_sat:
        bad = True
        print("INCONCLUSIVE property=%s vacuity twins: %d of %d distinguishable" % (prop, stats.twins_sat, stats.twins))
    if stats.keys == 0:
        bad = True
        print("INCONCLUSIVE property=%s no key was decided" % prop)
    return 2 if bad else 0
