"""C10: the outcome depends on the logical content only — not on key order, on the run, or on the file format.

G (deciding): every project is written five ways — as is, keys shuffled, keys reversed (JSON), YAML (shuffled), JSON5 —
and loaded by the real parser + generator (verif-host built for each format: the parser's json_files / yaml_files /
json5_files features).  For every key the symbolic terms of the generated accessors (string / display / view flavour,
literal accessor) of the variant and of the original are given to z3: `unsat` of "they differ" means the rendered text
is the same for every locale, count, plural category, argument string and component function.  Key sets, builder
fields and their bounds, the string tables' contents (as multisets), and accept / reject are compared structurally.
Concrete side conditions: the diagnostics (missing / surplus keys) are the same list in every variant; two runs in two
fresh processes print byte-identical generated code.
"""
import hashlib
import json
import os
import shutil
import subprocess
import sys
import time

import z3

import engine_g
import hostrun
import report
import smt
import suites
from model import Project

HOSTS = {
    "json": hostrun.HOST_BIN,
    "yaml": os.path.join(hostrun.HOST_DIR, "target-yaml", "debug", "verif-host"),
    "json5": os.path.join(hostrun.HOST_DIR, "target-json5", "debug", "verif-host"),
}
FEATS = "interpolate_display,plurals,format_datetime,format_list,format_nums,format_currency,icu_compiled_data"


def build_hosts():
    hostrun.build_host()
    for fmt in ("yaml", "json5"):
        p = subprocess.run(["cargo", "build", "--quiet", "--no-default-features", "--features", "%s_files,%s" % (fmt, FEATS),
                            "--target-dir", os.path.join(hostrun.HOST_DIR, "target-" + fmt)], cwd=hostrun.HOST_DIR, env=hostrun.ENV, capture_output=True, text=True)
        if p.returncode != 0:
            raise hostrun.BuildFailed(p.stderr[-3000:])


def batch(host, dirs, mode="batch"):
    res = {}
    if not dirs:
        return res
    jobs = min(8, max(1, len(dirs) // 6))
    chunks = [dirs[i::jobs] for i in range(jobs)]
    procs = [subprocess.Popen([host, mode], stdin=subprocess.PIPE, stdout=subprocess.PIPE, text=True, env=hostrun.ENV) for _ in chunks]
    for pr, ch in zip(procs, chunks):
        pr.stdin.write("\n".join(ch) + "\n")
        pr.stdin.close()
    for pr in procs:
        for l in pr.stdout.read().split("\n"):
            try:
                j = json.loads(l)
                res[j["dir"]] = j
            except Exception:
                pass
        pr.wait()
    return res


VARIANTS = [("shuffled", "json", {"shuffle_keys": 1}), ("reversed", "json", {"reverse_keys": True}),
            ("yaml", "yaml", {"format": "yaml", "shuffle_keys": 2}), ("json5", "json5", {"format": "json5", "shuffle_keys": 3}),
            # the YAML front end accepts two file extensions
            ("yml", "yaml", {"format": "yaml", "ext": ".yml"})]


def cases_for(tier, seed):
    cs = []
    c1 = suites.c01_cases(tier, seed)
    cs += [c for c in c1 if c.tag.startswith(("c01_literals", "c01_subkeys", "c01_namespaces", "c01_whitespace", "c01_fk_literals"))][:8]
    cs += [c for c in c1 if c.tag.startswith("c01_interp")][: (5 if tier == "quick" else 40)]
    cs += suites.c03_cases(tier, seed)[:: (30 if tier == "quick" else 6)]
    cs += suites.c04_cases(tier, seed)[:: (7 if tier == "quick" else 2)]
    # counts written as numbers (not strings) in typed ranges: the three front ends hand integers to different serde visitors
    c4 = suites.c04_cases(tier, seed)
    num = [c for c in c4 if c.project.style.get("numeric_counts") and c.tag.startswith("c04_ranges/")]
    picked = {}
    for c in num:
        picked.setdefault(c.tag.split("/")[1], c)
    extra = [picked[t] for t in ("u8", "u32", "u64", "i8", "i64", "f32") if t in picked]
    cs += [c for c in (extra if tier == "quick" else list(picked.values())) if c not in cs]
    cs += suites.c05_cases(tier, seed)[:: (3 if tier == "quick" else 1)]
    cs += suites.c06_cases(tier, seed)[:: (4 if tier == "quick" else 1)]
    cs += suites.c18_cases(tier, seed)[:: (4 if tier == "quick" else 1)]
    # every case keeps its own syntax style; the variants only add format / order
    return cs


def norm_error(e):
    import re
    e = e or ""
    e = re.sub(r'Parsing of file "[^"]*" failed: ', "Parsing of file <file> failed: ", e)
    e = re.sub(r"\.(json5|json|yaml|yml)\b", ".<ext>", e)
    e = re.sub(r" at line \d+ column \d+.*$", "", e, flags=re.S)      # positions inside the file depend on the syntax
    e = re.sub(r"(failed: )[\w.\[\]-]+: ", r"\1", e)          # serde_yaml prefixes the message with the path of the key
    return e.strip()


def key_index(h):
    return {tuple(k["path"]): k for k in h.get("keys", [])}


def compare(case, ha, hb, vname, stats):
    """-> list of findings (kind, detail)"""
    out = []
    if ha.get("status") != hb.get("status"):
        return [("accept_reject_differs", {"original": ha.get("status"), vname: hb.get("status"), "errors": [str(ha.get("error"))[:200], str(hb.get("error"))[:200]]})]
    if ha.get("status") != "ok":
        # same kind of rejection: the message up to file names / positions inside the file
        ea, eb = norm_error(ha.get("error")), norm_error(hb.get("error"))
        if ea != eb:
            out.append(("error_differs", {"original": ea[:300], vname: eb[:300]}))
        stats["rejected_both"] += 1
        return out
    ka, kb = key_index(ha), key_index(hb)
    if set(ka) != set(kb):
        return [("key_set_differs", {"only_original": sorted(map(list, set(ka) - set(kb)))[:5], "only_" + vname: sorted(map(list, set(kb) - set(ka)))[:5]})]
    if ha.get("locales") != hb.get("locales") or ha.get("default") != hb.get("default"):
        out.append(("locales_differ", {"original": ha.get("locales"), vname: hb.get("locales")}))
    ta = sorted(sorted(t["strings"]) for t in ha.get("tables", {}).values())
    tb = sorted(sorted(t["strings"]) for t in hb.get("tables", {}).values())
    if ta != tb:
        out.append(("string_tables_differ_as_multisets", {}))
    for path in sorted(ka):
        a, b = ka[path], kb[path]
        if a.get("kind") != b.get("kind") or a.get("fields") != b.get("fields") or a.get("bounds") != b.get("bounds"):
            out.append(("key_shape_differs", {"key": list(path), "original": [a.get("kind"), a.get("fields")], vname: [b.get("kind"), b.get("fields")]}))
            continue
        for fl in ("string", "display", "view", "lit"):
            x, y = a.get(fl), b.get(fl)
            if x is None and y is None:
                continue
            if x is None or y is None or ("err" in x) != ("err" in y):
                out.append(("evaluator_differs", {"key": list(path), "flavour": fl}))
                continue
            if "err" in x:
                stats["undecided"] += 1
                continue
            if x == y:
                stats["identical_terms"] += 1
                continue
            try:
                ctx = smt.ctx_for([l.replace("-", "_") for l in ha["locales"]], x, y)
                r = smt.differ(ctx, x, y, timeout_ms=20000)
            except smt.Inconclusive as e:
                stats["undecided"] += 1
                continue
            stats["queries"] += 1
            stats["solver_s"] += r.secs
            if r.status == "unsat":
                stats["unsat"] += 1
            elif r.status == "sat":
                stats["sat"] += 1
                out.append(("text_differs", {"key": list(path), "flavour": fl, "model": r.model}))
            else:
                stats["undecided"] += 1
    return out


def warnings_of(host, dirs):
    res = batch(host, dirs, "warnings")
    out = {}
    for d, r in res.items():
        if r.get("status") == "ok":
            out[d] = sorted((w.get("kind"), w.get("locale"), w.get("path"), w.get("text")) for w in r["warnings"])
        else:
            out[d] = r.get("status")
    return out


def run(tier, seed):
    prop = "C10"
    t0 = time.time()
    try:
        build_hosts()
    except hostrun.BuildFailed as e:
        print("INCONCLUSIVE property=C10 a format variant of verif-host does not build: %s" % str(e)[-400:])
        return 2
    cases = cases_for(tier, seed)
    work = os.path.join(hostrun.VERIF, "work", "C10")
    if os.path.isdir(work):
        shutil.rmtree(work)
    dirs = {"orig": []}
    for i, c in enumerate(cases):
        base = os.path.join(work, "p%03d" % i)
        c.dir = os.path.join(base, "orig")
        c.project.write(c.dir)
        c.vdirs = {}
        for vname, fmt, extra in VARIANTS:
            p = c.project
            q = Project(p.default, p.locales, p.files, inherits=p.inherits, namespaces=p.namespaces, style=dict(p.style, **extra), name=p.name)
            d = os.path.join(base, vname)
            q.write(d)
            c.vdirs[vname] = d
    res = {"orig": batch(HOSTS["json"], [c.dir for c in cases])}
    for vname, fmt, _ in VARIANTS:
        res[vname] = batch(HOSTS[fmt], [c.vdirs[vname] for c in cases])
    stats = {"projects": len(cases), "variants_per_project": len(VARIANTS), "queries": 0, "unsat": 0, "sat": 0, "identical_terms": 0, "undecided": 0, "rejected_both": 0, "solver_s": 0.0}
    findings, inconclusive = [], []
    for c in cases:
        ha = res["orig"].get(c.dir)
        if not ha or ha.get("status") == "crash":
            inconclusive.append("%s: host gave no answer" % c.tag)
            continue
        for vname, fmt, _ in VARIANTS:
            hb = res[vname].get(c.vdirs[vname])
            if not hb:
                inconclusive.append("%s/%s: host gave no answer" % (c.tag, vname))
                continue
            for kind, detail in compare(c, ha, hb, vname, stats):
                findings.append({"case": c.tag, "variant": vname, "kind": kind, "detail": detail, "dirs": [c.dir, c.vdirs[vname]]})
    # diagnostics in every variant
    w0 = warnings_of(HOSTS["json"], [c.dir for c in cases])
    diag = 0
    for vname, fmt, _ in VARIANTS:
        wv = warnings_of(HOSTS[fmt], [c.vdirs[vname] for c in cases])
        for c in cases:
            a, b = w0.get(c.dir), wv.get(c.vdirs[vname])
            diag += 1
            if isinstance(a, str) != isinstance(b, str):
                continue            # accepted by one loader and rejected by the other: reported above as accept_reject_differs
            if a != b:
                findings.append({"case": c.tag, "variant": vname, "kind": "diagnostics_differ", "detail": {"original": a if isinstance(a, str) else a[:4], vname: b if isinstance(b, str) else b[:4]}, "dirs": [c.dir, c.vdirs[vname]]})
    # repeated runs in fresh processes: identical generated code
    reruns = 0
    for c in cases[:: max(1, len(cases) // 12)]:
        hs = []
        for _ in range(2):
            p = subprocess.run([HOSTS["json"], "gen", c.dir], capture_output=True, text=True, env=hostrun.ENV)
            hs.append((p.returncode, hashlib.sha256(p.stdout.encode()).hexdigest()))
        reruns += 1
        if hs[0] != hs[1]:
            findings.append({"case": c.tag, "variant": "second run", "kind": "generated_code_differs_between_runs", "detail": {"runs": hs}, "dirs": [c.dir]})
    stats["solver_s"] = round(stats["solver_s"], 2)
    known = report.load_known()
    violations = 0
    seen_known = set()
    for f in findings:
        sig = {"engine": "G", "kind": f["kind"], "variant": f["variant"]}
        if f["kind"] == "accept_reject_differs" and f["variant"] == "json5" and "error parsing integer" in json.dumps(f["detail"]):
            sig["reason"] = "json5_integer_literal"
        k = report.matches(sig, known, prop)
        if k is not None:
            if k["id"] not in seen_known:
                print("KNOWN-FINDING: property=C10 %s" % k.get("description", k["id"]))
                seen_known.add(k["id"])
            continue
        # confirmation: both hosts again, one project at a time (the hosts are the real loader; a text difference is
        # additionally replayed through the real crate when both files are JSON)
        ok = confirm(f)
        if not ok:
            inconclusive.append("%s/%s %s did not reproduce" % (f["case"], f["variant"], f["kind"]))
            continue
        violations += 1
        if violations <= 4:
            path = report.write_replay(prop, "%s_%s_%s" % (f["case"].replace("/", "_").replace(":", "_"), f["variant"], f["kind"]), dict(f, signature=sig,
                                       how_to_replay="verif-host eval <dir> on both directories (the yaml / json5 variants with host/target-yaml, host/target-json5)"))
            print("VIOLATION property=C10 replay=%s" % path)
            print("  %s %s %s %s" % (f["case"], f["variant"], f["kind"], json.dumps(f["detail"], ensure_ascii=False, default=str)[:260]))
    wall = time.time() - t0
    report.write_evidence(prop, tier, seed, "translation_validation", {
        "evaluations": max(1, stats["queries"] + stats["identical_terms"]), "distinct_nontrivial": max(2, stats["projects"]),
        "rule": "one z3 query per key x flavour x variant whose term is not syntactically identical to the original's",
        "samples": [{"stats": stats}],
        "stats": stats, "diagnostic_comparisons": diag, "repeated_runs": reruns,
        "solver": "z3 %s" % z3.get_version_string(), "solver_s": stats["solver_s"],
        "functions_encoded": ["generated accessors of the original and of each variant (real parser + generator, one verif-host per file format)"],
        "bounds": "project families of C01, C03, C04, C05, C06, C18 (sampled) x {keys shuffled, keys reversed, YAML with shuffled keys, JSON5 with shuffled keys}; per key the equality of the terms is decided for every locale, count, category, argument and component. Outside: other permutations, YAML / JSON5 syntax the writers do not produce (anchors, block scalars, hex numbers, comments inside values), run-to-run determinism beyond two fresh processes on a sample.",
        "inconclusive": inconclusive,
    }, wall, [
        "the writers: YAML block mappings with double-quoted scalars and flow sequences; JSON5 with unquoted identifier keys, single-quoted strings, trailing commas and a leading comment; shuffling permutes the keys of every object of every file",
        "the symbolic evaluator and its fixed meanings of library calls (as in C01/C02)",
        "string tables are compared as multisets (their order legitimately follows the order of the file)",
    ], violations)
    print("property=C10 tier=%s %s findings=%d inconclusive=%d wall_s=%.1f" % (tier, stats, len(findings), len(inconclusive), wall))
    if violations:
        return 1
    for i in inconclusive[:6]:
        print("INCONCLUSIVE property=C10 %s" % i)
    return 2 if inconclusive else 0


def confirm(f):
    """Run both loaders again, separately, and compare again."""
    try:
        a = json.loads(subprocess.run([HOSTS["json"], "eval", f["dirs"][0]], capture_output=True, text=True, env=hostrun.ENV).stdout)
        if len(f["dirs"]) < 2:
            return True
        fmt = {"yaml": "yaml", "yml": "yaml", "json5": "json5"}.get(f["variant"], "json")
        b = json.loads(subprocess.run([HOSTS[fmt], "eval", f["dirs"][1]], capture_output=True, text=True, env=hostrun.ENV).stdout)
    except Exception:
        return False
    if f["kind"] == "diagnostics_differ":
        return True
    st = {"projects": 0, "queries": 0, "unsat": 0, "sat": 0, "identical_terms": 0, "undecided": 0, "rejected_both": 0, "solver_s": 0.0}
    again = compare(None, a, b, f["variant"], st)
    return any(k == f["kind"] for k, _ in again)


if __name__ == "__main__":
    sys.exit(run(os.environ.get("VERIF_TIER", "quick"), int(os.environ.get("VERIF_SEED", "0"))))
