"""C18, native part: real td_string! output vs direct uncached ICU4X calls with the options the reference denotation
prescribes, in two different evaluation orders (the formatter cache must not matter)."""
import json
import os
import subprocess

import replay

VALUE = {   # formatter kind -> (rust expression given to td_string!, is number)
    "fmt_number": "2000.5f64",
    "fmt_currency": "2000.5f64",
    "fmt_date": "icu_ref::the_date()",
    "fmt_time": "icu_ref::the_time()",
    "fmt_datetime": "icu_ref::the_datetime()",
    "fmt_list": "icu_ref::the_list()",
}


def tok_to_rust(tok):
    t = "".join(tok.split())
    if t.startswith("CurrencyCode("):
        inner = t[len("CurrencyCode(tinystr!(3,"):-2]
        return "leptos_i18n::reexports::icu::currency::formatter::CurrencyCode(leptos_i18n::reexports::tinystr!(3, %s))" % inner
    return t


def find_fmt_kinds(term, acc):
    """var name -> formatter kind, for every formatted variable of a term"""
    if isinstance(term, dict):
        if term.get("t") == "app" and term["f"].startswith("fmt_"):
            v = term["a"][1]["v"]
            if v.get("t") == "var":
                acc.setdefault(v["n"], set()).add(term["f"])
        for x in term.values():
            find_fmt_kinds(x, acc)
    elif isinstance(term, list):
        for x in term:
            find_fmt_kinds(x, acc)


def rust_expected(term, env, locale_name):
    """Rust statements pushing the expected text into `e`."""
    k = term["t"]
    if k == "str":
        return "e.push_str(%s);" % replay.rust_str(term["v"])
    if k == "var":
        return "e.push_str(%s);" % replay.rust_str(replay.eval_term(term, env))
    if k == "cat":
        return " ".join(rust_expected(x, env, locale_name) for x in term["a"])
    if k == "ite":
        return rust_expected(term["a"] if replay.eval_cond(term["c"], env) else term["b"], env, locale_name)
    if k == "app":
        f = term["f"]
        if f.startswith("comp_"):
            n = f[len("comp_"):]
            return "e.push_str(%s); %s e.push_str(%s);" % (replay.rust_str(replay.OPEN % n), rust_expected(term["a"][0]["v"], env, locale_name), replay.rust_str(replay.CLOSE % n))
        if f.startswith("fmt_"):
            opts = [tok_to_rust(a["v"]) for a in term["a"][2:]]
            kind = f[len("fmt_"):]
            args = [replay.rust_str(locale_name)] + opts
            if kind in ("number", "currency"):
                args.append("2000.5f64")
            return "e.push_str(&icu_ref::%s(%s));" % (kind, ", ".join(args))
    raise replay.ReplayError("cannot write expected text for %r" % k)


def request_block(i, locale_ident, locale_name, hk, gen_fields, ref, env, kinds):
    args = ["Locale::%s" % locale_ident, ".".join(hk["path"])]
    for f in gen_fields:
        if f.startswith("comp_"):
            n = f[len("comp_"):]
            args.append("<%s> = |f: &mut core::fmt::Formatter<'_>, c: &dyn Fn(&mut core::fmt::Formatter<'_>) -> core::fmt::Result| { f.write_str(%s)?; c(f)?; f.write_str(%s) }"
                        % (n, replay.rust_str(replay.OPEN % n), replay.rust_str(replay.CLOSE % n)))
        else:
            n = f[len("var_"):]
            if f in kinds:
                kind = sorted(kinds[f])[0]
                args.append("%s = %s" % (n, VALUE[kind]))
            elif f in env["nums"]:
                args.append("%s = %s" % (n, replay.rust_num(env["nums"][f]["ty"], env["nums"][f]["v"])))
            else:
                args.append("%s = %s" % (n, replay.rust_str(env["strings"].get(f, "<" + f + ">"))))
    exp = rust_expected(ref, env, locale_name)
    return ("    reqs.push(Box::new(move || { let actual = std::panic::catch_unwind(|| td_string!(%s).to_string()).unwrap_or_else(|_| \"<panic>\".to_string()); "
            "let expected = std::panic::catch_unwind(|| { let mut e = String::new(); %s e }).unwrap_or_else(|_| \"<panic>\".to_string()); (%d, actual, expected) }));"
            % (", ".join(args), exp, i))


MAIN = '''
    std::panic::set_hook(Box::new(|_| {}));
    let mut reqs: Vec<Box<dyn Fn() -> (usize, String, String)>> = Vec::new();
@REQS@
    if std::env::var("VERIF_ORDER").ok().as_deref() == Some("rev") {
        reqs.reverse();
    }
    for r in reqs.iter() {
        let (i, a, e) = r();
        println!("{}\\t{}\\t{}", i, hex(&a), hex(&e));
    }
'''


def run_project(case, h, cldr):
    """-> (n requests, [mismatch dicts])"""
    import engine_g
    proj = case.project
    blocks, meta = [], []
    name_of = {proj.ident(l): l for l in proj.locale_order()}
    for ns, path in proj.leaf_keys():
        hk = engine_g.host_key(h, ns, path)
        if not hk or hk.get("kind") != "builder":
            continue
        try:
            ref = proj.denote_key(ns, path)
        except Exception:
            continue
        kinds = {}
        find_fmt_kinds(ref, kinds)
        if not kinds or any(len(v) != 1 for v in kinds.values()):
            continue
        # ICU4X cannot build a TimeFormatter of length full / long without a time zone: the library panics there
        # (and poisons its formatter cache for the rest of the process); not part of this comparison
        rj = json.dumps(ref)
        if "length::Time::Full" in rj or "length::Time::Long" in rj:
            continue
        fields = hk.get("fields", [])
        for loc in h["locales"]:
            nums = {}
            for f in fields:
                b = " ".join(hk.get("bounds", {}).get("__%s__" % f, []))
                if "InterpolateRangeCount<" in b:
                    nums[f] = {"ty": b.split("InterpolateRangeCount<")[1].split(">")[0], "v": 3}
                elif "InterpolatePluralCount" in b and f not in kinds:
                    nums[f] = {"ty": "plural", "v": 3}
            env = {"locale": loc, "strings": {f: "<%s>" % f for f in fields if f.startswith("var_") and f not in kinds and f not in nums},
                   "nums": nums, "cat": cldr.category}
            try:
                blocks.append(request_block(len(blocks), loc, name_of[loc], hk, fields, ref, env, kinds))
                meta.append({"key": list(path), "locale": loc})
            except replay.ReplayError:
                continue
    if not blocks:
        return 0, []
    replay.setup_crate(case.dir, MAIN.replace("@REQS@", "\n".join(blocks)))
    outs = {}
    for order in ("fwd", "rev"):
        env = dict(os.environ, CARGO_NET_OFFLINE="true", CARGO_TARGET_DIR=replay.TARGET, VERIF_ORDER=order)
        try:
            p = subprocess.run(["cargo", "run", "--quiet"], cwd=replay.CRATE, env=env, capture_output=True, text=True, timeout=1800)
        finally:
            if order == "rev":
                replay.unlock()
        if p.returncode != 0:
            replay.unlock()
            raise replay.ReplayError("replay crate failed: %s" % p.stderr[-2500:])
        for l in p.stdout.split("\n"):
            parts = l.split("\t")
            if len(parts) == 3:
                outs.setdefault(int(parts[0]), {})[order] = (bytes.fromhex(parts[1]).decode(), bytes.fromhex(parts[2]).decode())
    bad = []
    for i, m in enumerate(meta):
        o = outs.get(i, {})
        for order in ("fwd", "rev"):
            if order in o and o[order][0] != o[order][1]:
                bad.append(dict(m, order=order, real_output=o[order][0], icu_with_declared_options=o[order][1]))
                break
        else:
            if "fwd" in o and "rev" in o and o["fwd"][0] != o["rev"][0]:
                bad.append(dict(m, order="fwd vs rev", real_output=o["fwd"][0], other_order=o["rev"][0]))
    return len(meta), bad
