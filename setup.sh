#!/bin/bash
# Build the framework from files on disk only (offline).
set -e
cd "$(dirname "$0")"
export CARGO_NET_OFFLINE=true
mkdir -p work evidence .cache
cp -n /repo/Cargo.lock host/Cargo.lock 2>/dev/null || true
(cd host && cargo build --quiet)
# warm the native replay crate (leptos + leptos_i18n build, ~40 s cold)
/opt/veriftools/pyvenv/bin/python3 - <<'PY'
import sys, os
sys.path.insert(0, os.path.join(os.getcwd(), "lib"))
import replay, model
p = model.Project("en", ["en"], {"en": {"k": model.S("warm ", model.V("x"))}})
d = os.path.join(os.getcwd(), "work", "warmup")
p.write(d)
try:
    print(replay.run_requests(d, [{"locale": "en", "path": ["k"], "fields": ["var_x"], "strings": {"var_x": "up"}}]))
except Exception as e:
    print("replay warm-up failed (checks still run; replay will rebuild on demand):", e)
PY
# warm the nightly MIR target dir (engine M) and the Kani harness crate (engine K)
/opt/veriftools/pyvenv/bin/python3 - <<'PY'
import sys, os
sys.path.insert(0, os.path.join(os.getcwd(), "lib"))
import mirsmt
for crate, out in (("leptos_i18n_parser", "parser.mir"), ("leptos_i18n_router", "router.mir")):
    try:
        mirsmt.dump_mir(crate, out)
        print("MIR of", crate, "ok")
    except Exception as e:
        print("MIR warm-up of", crate, "failed (the check will retry):", e)
PY
for c in kani/*/; do
  n=$(basename "$c")
  cp -n /repo/Cargo.lock "$c/Cargo.lock" 2>/dev/null || true
  (cd "$c" && cargo kani --only-codegen --target-dir "$PWD/../../.cache/kani-target-$n" >/dev/null 2>&1) || echo "kani warm-up of $n failed (the check will rebuild)"
done
echo setup done
