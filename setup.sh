#!/bin/bash
# Build the framework from files on disk only (offline).
set -e
cd "$(dirname "$0")"
export CARGO_NET_OFFLINE=true
mkdir -p work evidence .cache
cp -n /repo/Cargo.lock host/Cargo.lock 2>/dev/null || true
(cd host && cargo build --quiet)
cp -n /repo/Cargo.lock bhost/Cargo.lock 2>/dev/null || true
(cd bhost && cargo build --quiet) || echo "bhost build failed: C11 / C20 will report it"
# second build of the host with the generator's dynamic_load + ssr arms (C17)
(cd host && cargo build --quiet --features dynamic_load,ssr --target-dir "$PWD/target-dl") || echo "host (dynamic_load) build failed: C17 will report it"
# the host once per file format (C10)
F="interpolate_display,plurals,format_datetime,format_list,format_nums,format_currency,icu_compiled_data"
(cd host && cargo build --quiet --no-default-features --features "yaml_files,$F" --target-dir "$PWD/target-yaml") || echo "host (yaml) build failed: C10 will report it"
(cd host && cargo build --quiet --no-default-features --features "json5_files,$F" --target-dir "$PWD/target-json5") || echo "host (json5) build failed: C10 will report it"
# warm the native replay crate (leptos + leptos_i18n build, ~40 s cold)
/opt/veriftools/pyvenv/bin/python3 - <<'PY'
import sys, os
sys.path.insert(0, os.path.join(os.getcwd(), "lib"))
import replay, model
p = model.Project("en", ["en"], {"en": {"k": model.S("warm ", model.V("x"))}})
d = os.path.join(os.getcwd(), "work", "warmup")
p.write(d)
try:
    print(replay.run_requests(d, [{"locale": "en", "path": ["k"], "fields": ["var_x"], "strings": {"var_x": "up"}}]))
except Exception as e:
    print("replay warm-up failed (checks still run; replay will rebuild on demand):", e)
PY
# warm the nightly MIR target dir (engine M) and the Kani harness crate (engine K)
/opt/veriftools/pyvenv/bin/python3 - <<'PY'
import sys, os
sys.path.insert(0, os.path.join(os.getcwd(), "lib"))
import mirsmt
for crate, out in (("leptos_i18n_parser", "parser.mir"), ("leptos_i18n_router", "router.mir"), ("leptos_i18n", "leptos_i18n.mir"), ("leptos_i18n_build", "build.mir")):
    try:
        mirsmt.dump_mir(crate, out)
        print("MIR of", crate, "ok")
    except Exception as e:
        print("MIR warm-up of", crate, "failed (the check will retry):", e)
PY
for c in kani/*/; do
  n=$(basename "$c")
  cp -n /repo/Cargo.lock "$c/Cargo.lock" 2>/dev/null || true
  fl=""; [ "$n" = jsstr ] && fl="--cap-lints warn"     # same RUSTFLAGS as lib/kani_run.py uses for that crate
  (cd "$c" && RUSTFLAGS="$fl" cargo kani --only-codegen --target-dir "$PWD/../../.cache/kani-target-$n" >/dev/null 2>&1) || echo "kani warm-up of $n failed (the check will rebuild)"
done
# warm the dynamic_load+ssr crate of C17 (its own target directory)
/opt/veriftools/pyvenv/bin/python3 - <<'PY'
import sys, os
sys.path.insert(0, os.path.join(os.getcwd(), "lib"))
import c17
try:
    c17.setup_crate(os.path.join(os.getcwd(), "work", "warmup"), "    request(0, || vec![on(td_string!(Locale::en, k, x = \"up\"))]);")
    print(c17.run_crate()[1])
except Exception as e:
    print("C17 crate warm-up failed (the check will rebuild):", e)
PY
# warm the ssr crate of C15
/opt/veriftools/pyvenv/bin/python3 - <<'PY'
import sys, os
sys.path.insert(0, os.path.join(os.getcwd(), "lib"))
import c15
try:
    print(c15.run_native([("top", True, "i18n_pref_locale=fr", "de")]))
except Exception as e:
    print("C15 crate warm-up failed (the check will rebuild):", e)
PY
# warm the live-effects crate of C16
/opt/veriftools/pyvenv/bin/python3 - <<'PY'
import sys, os
sys.path.insert(0, os.path.join(os.getcwd(), "lib"))
import c16
try:
    print(c16.run_histories([[("set", "a", "fr"), ("get", "a")]]))
except Exception as e:
    print("C16 crate warm-up failed (the check will rebuild):", e)
PY
echo setup done
