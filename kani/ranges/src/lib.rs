//! Kani harnesses over the real `Range::<T>::do_match` (through the `verif_hooks` forwarder),
//! `RangeNumber::range_end_bound` and `RangeNumber::from_{i64,u64}`.
#![allow(dead_code)]

#[cfg(kani)]
mod proofs {
    use leptos_i18n_parser::parse_locales::ranges::{Range, RangeNumber};
    use std::ops::Bound;

    trait Num: RangeNumber + kani::Arbitrary + core::fmt::Debug {
        fn usable(self) -> bool;
    }
    macro_rules! int_num { ($($t:ty),*) => { $( impl Num for $t { fn usable(self) -> bool { true } } )* } }
    int_num!(i8, i16, i32, i64, u8, u16, u32, u64);
    // a NaN / infinite bound never reaches code generation (the token conversion panics) and JSON cannot
    // express a NaN / infinite count: stated precondition of the claim
    impl Num for f32 { fn usable(self) -> bool { self.is_finite() } }
    impl Num for f64 { fn usable(self) -> bool { self.is_finite() } }

    fn any_bound<T: Num>() -> Bound<T> {
        let v: T = kani::any();
        kani::assume(v.usable());
        match kani::any::<u8>() % 3 {
            0 => Bound::Included(v),
            1 => Bound::Excluded(v),
            _ => Bound::Unbounded,
        }
    }

    fn any_simple<T: Num>() -> Range<T> {
        let v: T = kani::any();
        kani::assume(v.usable());
        match kani::any::<u8>() % 3 {
            0 => Range::Exact(v),
            1 => Range::Bounds { start: if kani::any() { Some(v) } else { None }, end: any_bound() },
            _ => Range::Fallback,
        }
    }

    fn any_range<T: Num>() -> Range<T> {
        match kani::any::<u8>() % 3 {
            0 => any_simple(),
            1 => Range::Multiple(vec![any_simple()]),
            _ => Range::Multiple(vec![any_simple(), any_simple()]),
        }
    }

    /// "bounds mean what they mean in Rust": written with RangeBounds::contains itself
    fn reference<T: Num>(r: &Range<T>, c: T) -> bool {
        use std::ops::RangeBounds;
        match r {
            Range::Exact(v) => c == *v,
            Range::Bounds { start, end } => {
                let s = match start { Some(s) => Bound::Included(*s), None => Bound::Unbounded };
                (s, *end).contains(&c)
            }
            Range::Fallback => true,
            Range::Multiple(v) => {
                let mut any = false;
                for r in v.iter() {
                    any = any || reference(r, c);
                }
                any
            }
        }
    }

    macro_rules! do_match_harness {
        ($name:ident, $t:ty) => {
            #[kani::proof]
            #[kani::unwind(3)]
            fn $name() {
                let r: Range<$t> = any_range();
                let c: $t = kani::any();
                kani::assume(c.usable());
                let got = r.verif_do_match(c);
                let want = reference(&r, c);
                assert!(got == want, "do_match disagrees with RangeBounds::contains");
                kani::cover!(got, "a matching case is reachable");
                kani::cover!(!got, "a non matching case is reachable");
                core::mem::forget(r);
            }
        };
    }
    do_match_harness!(do_match_i8, i8);
    do_match_harness!(do_match_i16, i16);
    do_match_harness!(do_match_i32, i32);
    do_match_harness!(do_match_i64, i64);
    do_match_harness!(do_match_u8, u8);
    do_match_harness!(do_match_u16, u16);
    do_match_harness!(do_match_u32, u32);
    do_match_harness!(do_match_u64, u64);
    do_match_harness!(do_match_f32, f32);
    do_match_harness!(do_match_f64, f64);

    // `a..b` on integers is stored as `a..=b-1`; b == MIN has no such form
    macro_rules! end_bound_harness {
        ($name:ident, $t:ty) => {
            #[kani::proof]
            fn $name() {
                let b: $t = kani::any();
                let c: $t = kani::any();
                match b.range_end_bound() {
                    None => assert!(b == <$t>::MIN),
                    Some(Bound::Included(e)) => {
                        assert!(b != <$t>::MIN);
                        // same set of counts as the exclusive bound
                        assert!((c <= e) == (c < b));
                    }
                    Some(_) => panic!("integer exclusive end must become an inclusive end"),
                }
                kani::cover!(b == <$t>::MIN);
            }
        };
    }
    end_bound_harness!(end_bound_i8, i8);
    end_bound_harness!(end_bound_i16, i16);
    end_bound_harness!(end_bound_i32, i32);
    end_bound_harness!(end_bound_i64, i64);
    end_bound_harness!(end_bound_u8, u8);
    end_bound_harness!(end_bound_u16, u16);
    end_bound_harness!(end_bound_u32, u32);
    end_bound_harness!(end_bound_u64, u64);

    // numeric counts written in the file: lossless conversion or rejection
    macro_rules! from_harness {
        ($name:ident, $t:ty) => {
            #[kani::proof]
            fn $name() {
                let u: u64 = kani::any();
                let i: i64 = kani::any();
                match <$t as RangeNumber>::from_u64(u) {
                    Some(v) => assert!(v as i128 == u as i128),
                    None => assert!((u as i128) > (<$t>::MAX as i128)),
                }
                match <$t as RangeNumber>::from_i64(i) {
                    Some(v) => assert!(v as i128 == i as i128),
                    None => assert!((i as i128) > (<$t>::MAX as i128) || (i as i128) < (<$t>::MIN as i128)),
                }
                assert!(<$t as RangeNumber>::from_f64(1.0).is_none());
            }
        };
    }
    from_harness!(from_i8, i8);
    from_harness!(from_i16, i16);
    from_harness!(from_i32, i32);
    from_harness!(from_i64, i64);
    from_harness!(from_u8, u8);
    from_harness!(from_u16, u16);
    from_harness!(from_u32, u32);
    from_harness!(from_u64, u64);

    // vacuity witness: a harness whose assertion must fail
    #[kani::proof]
    #[kani::unwind(3)]
    fn witness_do_match_reaches_assert() {
        let r: Range<u8> = any_range();
        let c: u8 = kani::any();
        let got = r.verif_do_match(c);
        assert!(!got, "WITNESS: must be violated (some range matches some count)");
        core::mem::forget(r);
    }
}
