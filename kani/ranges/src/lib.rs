//! Kani harnesses over the real `Range::<T>::do_match` (through the `verif_hooks` forwarder),
//! `RangeNumber::range_end_bound` and `RangeNumber::from_{i64,u64}`.
#![allow(dead_code)]

#[cfg(kani)]
mod proofs {
    use leptos_i18n_parser::parse_locales::ranges::{Range, RangeNumber};
    use std::ops::Bound;

    trait Num: RangeNumber + kani::Arbitrary + core::fmt::Debug {
        fn usable(self) -> bool;
    }
    macro_rules! int_num { ($($t:ty),*) => { $( impl Num for $t { fn usable(self) -> bool { true } } )* } }
    int_num!(i8, i16, i32, i64, u8, u16, u32, u64);
    // a NaN / infinite bound never reaches code generation (the token conversion panics) and JSON cannot
    // express a NaN / infinite count: stated precondition of the claim
    impl Num for f32 { fn usable(self) -> bool { self.is_finite() } }
    impl Num for f64 { fn usable(self) -> bool { self.is_finite() } }

    fn any_bound<T: Num>() -> Bound<T> {
        let v: T = kani::any();
        kani::assume(v.usable());
        match kani::any::<u8>() % 3 {
            0 => Bound::Included(v),
            1 => Bound::Excluded(v),
            _ => Bound::Unbounded,
        }
    }

    fn any_simple<T: Num>() -> Range<T> {
        let v: T = kani::any();
        kani::assume(v.usable());
        match kani::any::<u8>() % 3 {
            0 => Range::Exact(v),
            1 => Range::Bounds { start: if kani::any() { Some(v) } else { None }, end: any_bound() },
            _ => Range::Fallback,
        }
    }

    fn any_range<T: Num>() -> Range<T> {
        match kani::any::<u8>() % 3 {
            0 => any_simple(),
            1 => Range::Multiple(vec![any_simple()]),
            _ => Range::Multiple(vec![any_simple(), any_simple()]),
        }
    }

    /// "bounds mean what they mean in Rust": written with RangeBounds::contains itself
    fn reference<T: Num>(r: &Range<T>, c: T) -> bool {
        use std::ops::RangeBounds;
        match r {
            Range::Exact(v) => c == *v,
            Range::Bounds { start, end } => {
                let s = match start { Some(s) => Bound::Included(*s), None => Bound::Unbounded };
                (s, *end).contains(&c)
            }
            Range::Fallback => true,
            Range::Multiple(v) => {
                let mut any = false;
                for r in v.iter() {
                    any = any || reference(r, c);
                }
                any
            }
        }
    }

    fn check_do_match<T: Num>() {
        let r: Range<T> = any_range();
        let c: T = kani::any();
        kani::assume(c.usable());
        let got = r.verif_do_match(c);
        let want = reference(&r, c);
        assert!(got == want, "do_match disagrees with RangeBounds::contains");
        kani::cover!(got, "a matching case is reachable");
        kani::cover!(!got, "a non matching case is reachable");
        core::mem::forget(r);
    }
    #[kani::proof]
    #[kani::unwind(3)]
    fn do_match_i8() {
        check_do_match::<i8>();
    }
    #[kani::proof]
    #[kani::unwind(3)]
    fn do_match_i16() {
        check_do_match::<i16>();
    }
    #[kani::proof]
    #[kani::unwind(3)]
    fn do_match_i32() {
        check_do_match::<i32>();
    }
    #[kani::proof]
    #[kani::unwind(3)]
    fn do_match_i64() {
        check_do_match::<i64>();
    }
    #[kani::proof]
    #[kani::unwind(3)]
    fn do_match_u8() {
        check_do_match::<u8>();
    }
    #[kani::proof]
    #[kani::unwind(3)]
    fn do_match_u16() {
        check_do_match::<u16>();
    }
    #[kani::proof]
    #[kani::unwind(3)]
    fn do_match_u32() {
        check_do_match::<u32>();
    }
    #[kani::proof]
    #[kani::unwind(3)]
    fn do_match_u64() {
        check_do_match::<u64>();
    }
    #[kani::proof]
    #[kani::unwind(3)]
    fn do_match_f32() {
        check_do_match::<f32>();
    }
    #[kani::proof]
    #[kani::unwind(3)]
    fn do_match_f64() {
        check_do_match::<f64>();
    }

    // `a..b` on integers is stored as `a..=b-1`; b == MIN has no such form
    trait Int: Num + Ord {
        const MINV: Self;
        const MAXV: Self;
        fn wide(self) -> i128;
    }
    macro_rules! int_impl { ($($t:ty),*) => { $( impl Int for $t { const MINV: Self = <$t>::MIN; const MAXV: Self = <$t>::MAX; fn wide(self) -> i128 { self as i128 } } )* } }
    int_impl!(i8, i16, i32, i64, u8, u16, u32, u64);

    fn check_end_bound<T: Int>() {
        let b: T = kani::any();
        let c: T = kani::any();
        match b.range_end_bound() {
            None => assert!(b == T::MINV, "only an exclusive end at the type minimum has no inclusive form"),
            Some(Bound::Included(e)) => {
                assert!(b != T::MINV, "`..MIN` is empty: it has no inclusive form");
                // same set of counts as the exclusive bound
                assert!((c <= e) == (c < b), "a..b and a..=b-1 must contain the same counts");
            }
            Some(_) => panic!("integer exclusive end must become an inclusive end"),
        }
        kani::cover!(b == T::MINV);
    }
    #[kani::proof]
    fn end_bound_i8() {
        check_end_bound::<i8>();
    }
    #[kani::proof]
    fn end_bound_i16() {
        check_end_bound::<i16>();
    }
    #[kani::proof]
    fn end_bound_i32() {
        check_end_bound::<i32>();
    }
    #[kani::proof]
    fn end_bound_i64() {
        check_end_bound::<i64>();
    }
    #[kani::proof]
    fn end_bound_u8() {
        check_end_bound::<u8>();
    }
    #[kani::proof]
    fn end_bound_u16() {
        check_end_bound::<u16>();
    }
    #[kani::proof]
    fn end_bound_u32() {
        check_end_bound::<u32>();
    }
    #[kani::proof]
    fn end_bound_u64() {
        check_end_bound::<u64>();
    }

    // numeric counts written in the file: lossless conversion or rejection
    fn check_from<T: Int>() {
        let u: u64 = kani::any();
        let i: i64 = kani::any();
        match <T as RangeNumber>::from_u64(u) {
            Some(v) => assert!(v.wide() == u as i128),
            None => assert!((u as i128) > T::MAXV.wide()),
        }
        match <T as RangeNumber>::from_i64(i) {
            Some(v) => assert!(v.wide() == i as i128),
            None => assert!((i as i128) > T::MAXV.wide() || (i as i128) < T::MINV.wide()),
        }
        assert!(<T as RangeNumber>::from_f64(1.0).is_none());
    }
    #[kani::proof]
    fn from_i8() {
        check_from::<i8>();
    }
    #[kani::proof]
    fn from_i16() {
        check_from::<i16>();
    }
    #[kani::proof]
    fn from_i32() {
        check_from::<i32>();
    }
    #[kani::proof]
    fn from_i64() {
        check_from::<i64>();
    }
    #[kani::proof]
    fn from_u8() {
        check_from::<u8>();
    }
    #[kani::proof]
    fn from_u16() {
        check_from::<u16>();
    }
    #[kani::proof]
    fn from_u32() {
        check_from::<u32>();
    }
    #[kani::proof]
    fn from_u64() {
        check_from::<u64>();
    }


    // (a harness over Ranges::check_deserialization with a Vec of <= 3 symbolic (Range, ParsedValue) branches was tried: CBMC
    //  runs out of memory on the container of the recursive ParsedValue enum, so it is not part of the claim)

    // vacuity witness: a harness whose assertion must fail
    #[kani::proof]
    #[kani::unwind(3)]
    fn witness_do_match_reaches_assert() {
        let r: Range<u8> = any_range();
        let c: u8 = kani::any();
        let got = r.verif_do_match(c);
        assert!(!got, "WITNESS: must be violated (some range matches some count)");
        core::mem::forget(r);
    }
}
