//! Kani harness over the real `impl Display for TranslationsFormatter` of leptos_i18n_build:
//! for every string of at most 2 characters the exported text is a JSON array whose single string decodes
//! back to the input.
#![allow(dead_code)]

#[cfg(kani)]
mod proofs {
    use core::fmt::Write;
    use leptos_i18n_build::TranslationsFormatter;
    use std::rc::Rc;

    const CAP: usize = 20;

    struct Sink {
        buf: [u8; CAP],
        len: usize,
    }

    impl Write for Sink {
        fn write_str(&mut self, s: &str) -> core::fmt::Result {
            for b in s.bytes() {
                if self.len >= CAP {
                    return Err(core::fmt::Error);
                }
                self.buf[self.len] = b;
                self.len += 1;
            }
            Ok(())
        }
    }

    fn any_char() -> char {
        let c: u32 = kani::any();
        kani::assume(c <= 0x10FFFF && !(0xD800..=0xDFFF).contains(&c));
        char::from_u32(c).unwrap()
    }

    fn hex(b: u8) -> Option<u32> {
        match b {
            b'0'..=b'9' => Some((b - b'0') as u32),
            b'a'..=b'f' => Some((b - b'a' + 10) as u32),
            b'A'..=b'F' => Some((b - b'A' + 10) as u32),
            _ => None,
        }
    }

    /// JSON string grammar (RFC 8259) decoder over `["..."]` with exactly one string; returns the decoded
    /// scalar values (no surrogate pairs are ever needed for what the writer may emit below U+0020).
    fn decode(buf: &[u8; CAP], len: usize, out: &mut [u32; 2]) -> Option<usize> {
        if len < 4 || buf[0] != b'[' || buf[1] != b'"' || buf[len - 1] != b']' || buf[len - 2] != b'"' {
            return None;
        }
        let end = len - 2;
        let mut i = 2;
        let mut n = 0;
        while i < end {
            let b = buf[i];
            let cp: u32;
            if b == b'\\' {
                if i + 1 >= end {
                    return None;
                }
                match buf[i + 1] {
                    b'"' => { cp = 0x22; i += 2; }
                    b'\\' => { cp = 0x5c; i += 2; }
                    b'/' => { cp = 0x2f; i += 2; }
                    b'b' => { cp = 8; i += 2; }
                    b'f' => { cp = 12; i += 2; }
                    b'n' => { cp = 10; i += 2; }
                    b'r' => { cp = 13; i += 2; }
                    b't' => { cp = 9; i += 2; }
                    b'u' => {
                        if i + 5 >= end + 0 && i + 6 > end {
                            return None;
                        }
                        let v = (hex(buf[i + 2])? << 12) | (hex(buf[i + 3])? << 8) | (hex(buf[i + 4])? << 4) | hex(buf[i + 5])?;
                        cp = v;
                        i += 6;
                    }
                    _ => return None,
                }
            } else if b == b'"' || b < 0x20 {
                return None; // unescaped quote or control character: not JSON
            } else if b < 0x80 {
                cp = b as u32;
                i += 1;
            } else if b >= 0xF0 {
                if i + 3 >= end { return None; }
                cp = ((b as u32 & 0x07) << 18) | ((buf[i + 1] as u32 & 0x3f) << 12) | ((buf[i + 2] as u32 & 0x3f) << 6) | (buf[i + 3] as u32 & 0x3f);
                i += 4;
            } else if b >= 0xE0 {
                if i + 2 >= end { return None; }
                cp = ((b as u32 & 0x0f) << 12) | ((buf[i + 1] as u32 & 0x3f) << 6) | (buf[i + 2] as u32 & 0x3f);
                i += 3;
            } else if b >= 0xC0 {
                if i + 1 >= end { return None; }
                cp = ((b as u32 & 0x1f) << 6) | (buf[i + 1] as u32 & 0x3f);
                i += 2;
            } else {
                return None;
            }
            if n >= 2 {
                return None;
            }
            out[n] = cp;
            n += 1;
        }
        Some(n)
    }

    fn run(nchars: usize) {
        let c0 = any_char();
        let c1 = any_char();
        let mut s = String::new();
        s.push(c0);
        if nchars == 2 {
            s.push(c1);
        }
        let strings: [Rc<str>; 1] = [Rc::from(s.as_str())];
        let fmt = TranslationsFormatter::verif_new(&strings);
        let mut sink = Sink { buf: [0; CAP], len: 0 };
        let r = write!(sink, "{}", fmt);
        assert!(r.is_ok(), "formatting failed");
        let mut out = [0u32; 2];
        let n = decode(&sink.buf, sink.len, &mut out);
        assert!(n == Some(nchars), "exported text is not a JSON array of one string of the same length");
        assert!(out[0] == c0 as u32, "first character does not survive");
        if nchars == 2 {
            assert!(out[1] == c1 as u32, "second character does not survive");
        }
        kani::cover!(c0 == '"', "quote reachable");
        kani::cover!(c0 == '\u{a0}', "nbsp reachable");
        kani::cover!((c0 as u32) < 0x20, "control reachable");
        kani::cover!((c0 as u32) > 0xFFFF, "astral reachable");
        core::mem::forget(strings);
    }

    #[kani::proof]
    #[kani::unwind(22)]
    fn json_roundtrip_1_char() {
        run(1);
    }

    #[kani::proof]
    #[kani::unwind(22)]
    fn json_roundtrip_2_chars() {
        run(2);
    }

    #[kani::proof]
    #[kani::unwind(22)]
    fn witness_json_reaches_assert() {
        let c0 = any_char();
        let mut s = String::new();
        s.push(c0);
        let strings: [Rc<str>; 1] = [Rc::from(s.as_str())];
        let fmt = TranslationsFormatter::verif_new(&strings);
        let mut sink = Sink { buf: [0; CAP], len: 0 };
        let _ = write!(sink, "{}", fmt);
        assert!(sink.len != 3, "WITNESS: must be violated (a one byte character gives [\"c\"] = 5 bytes, never 3... but an escape gives 6)");
        assert!(sink.len == 5, "WITNESS: must be violated (escapes and multi-byte characters are longer)");
        core::mem::forget(strings);
    }
}
