//! Kani harness over the real `impl Display for TranslationsFormatter` of leptos_i18n_build:
//! for every string of one character, and of two characters of which one is ASCII, the exported text is a JSON array whose single string decodes
//! back to the input.
#![allow(dead_code)]
#![cfg_attr(kani, feature(formatting_options))]

#[cfg(kani)]
mod proofs {
    use core::fmt::Write;
    use leptos_i18n_build::TranslationsFormatter;
    use std::rc::Rc;

    const CAP: usize = 16;

    struct Sink {
        buf: [u8; CAP],
        len: usize,
    }

    impl Write for Sink {
        fn write_str(&mut self, s: &str) -> core::fmt::Result {
            for b in s.bytes() {
                if self.len >= CAP {
                    return Err(core::fmt::Error);
                }
                self.buf[self.len] = b;
                self.len += 1;
            }
            Ok(())
        }
    }

    fn any_char() -> char {
        let c: u32 = kani::any();
        kani::assume(c <= 0x10FFFF && !(0xD800..=0xDFFF).contains(&c));
        char::from_u32(c).unwrap()
    }

    fn hex(b: u8) -> Option<u32> {
        match b {
            b'0'..=b'9' => Some((b - b'0') as u32),
            b'a'..=b'f' => Some((b - b'a' + 10) as u32),
            b'A'..=b'F' => Some((b - b'A' + 10) as u32),
            _ => None,
        }
    }

    /// JSON string grammar (RFC 8259) decoder over `["..."]` with exactly one string; returns the decoded
    /// scalar values (no surrogate pairs are ever needed for what the writer may emit below U+0020).
    fn decode(buf: &[u8; CAP], len: usize, out: &mut [u32; 2]) -> Option<usize> {
        if len < 4 || buf[0] != b'[' || buf[1] != b'"' || buf[len - 1] != b']' || buf[len - 2] != b'"' {
            return None;
        }
        let end = len - 2;
        let mut i = 2;
        let mut n = 0;
        while i < end {
            let b = buf[i];
            let cp: u32;
            if b == b'\\' {
                if i + 1 >= end {
                    return None;
                }
                match buf[i + 1] {
                    b'"' => { cp = 0x22; i += 2; }
                    b'\\' => { cp = 0x5c; i += 2; }
                    b'/' => { cp = 0x2f; i += 2; }
                    b'b' => { cp = 8; i += 2; }
                    b'f' => { cp = 12; i += 2; }
                    b'n' => { cp = 10; i += 2; }
                    b'r' => { cp = 13; i += 2; }
                    b't' => { cp = 9; i += 2; }
                    b'u' => {
                        if i + 5 >= end + 0 && i + 6 > end {
                            return None;
                        }
                        let v = (hex(buf[i + 2])? << 12) | (hex(buf[i + 3])? << 8) | (hex(buf[i + 4])? << 4) | hex(buf[i + 5])?;
                        cp = v;
                        i += 6;
                    }
                    _ => return None,
                }
            } else if b == b'"' || b < 0x20 {
                return None; // unescaped quote or control character: not JSON
            } else if b < 0x80 {
                cp = b as u32;
                i += 1;
            } else if b >= 0xF0 {
                if i + 3 >= end { return None; }
                cp = ((b as u32 & 0x07) << 18) | ((buf[i + 1] as u32 & 0x3f) << 12) | ((buf[i + 2] as u32 & 0x3f) << 6) | (buf[i + 3] as u32 & 0x3f);
                i += 4;
            } else if b >= 0xE0 {
                if i + 2 >= end { return None; }
                cp = ((b as u32 & 0x0f) << 12) | ((buf[i + 1] as u32 & 0x3f) << 6) | (buf[i + 2] as u32 & 0x3f);
                i += 3;
            } else if b >= 0xC0 {
                if i + 1 >= end { return None; }
                cp = ((b as u32 & 0x1f) << 6) | (buf[i + 1] as u32 & 0x3f);
                i += 2;
            } else {
                return None;
            }
            if n >= 2 {
                return None;
            }
            out[n] = cp;
            n += 1;
        }
        Some(n)
    }

    /// Well-formed UTF-8 encoding of exactly one scalar value in exactly N bytes (Unicode 3.9, table 3-7).
    fn well_formed<const N: usize>(b: &[u8; N]) -> bool {
        match N {
            1 => b[0] < 0x80,
            2 => (0xC2..=0xDF).contains(&b[0]) && (0x80..=0xBF).contains(&b[1]),
            3 => {
                let t = (0x80..=0xBF).contains(&b[2]);
                t && match b[0] {
                    0xE0 => (0xA0..=0xBF).contains(&b[1]),
                    0xE1..=0xEC | 0xEE..=0xEF => (0x80..=0xBF).contains(&b[1]),
                    0xED => (0x80..=0x9F).contains(&b[1]),
                    _ => false,
                }
            }
            4 => {
                let t = (0x80..=0xBF).contains(&b[2]) && (0x80..=0xBF).contains(&b[3]);
                t && match b[0] {
                    0xF0 => (0x90..=0xBF).contains(&b[1]),
                    0xF1..=0xF3 => (0x80..=0xBF).contains(&b[1]),
                    0xF4 => (0x80..=0x8F).contains(&b[1]),
                    _ => false,
                }
            }
            _ => false,
        }
    }

    fn scalar<const N: usize>(b: &[u8; N]) -> u32 {
        match N {
            1 => b[0] as u32,
            2 => ((b[0] as u32 & 0x1f) << 6) | (b[1] as u32 & 0x3f),
            3 => ((b[0] as u32 & 0x0f) << 12) | ((b[1] as u32 & 0x3f) << 6) | (b[2] as u32 & 0x3f),
            _ => ((b[0] as u32 & 0x07) << 18) | ((b[1] as u32 & 0x3f) << 12) | ((b[2] as u32 & 0x3f) << 6) | (b[3] as u32 & 0x3f),
        }
    }

    /// One string made of one scalar of N bytes followed by one scalar of M bytes (M = 0: one character only).
    fn run<const N: usize, const M: usize, const T: usize>() {
        let a: [u8; N] = kani::any();
        let b: [u8; M] = kani::any();
        kani::assume(well_formed(&a));
        kani::assume(M == 0 || well_formed(&b));
        let mut bytes = [0u8; T];
        let mut i = 0;
        while i < N {
            bytes[i] = a[i];
            i += 1;
        }
        let mut j = 0;
        while j < M {
            bytes[N + j] = b[j];
            j += 1;
        }
        // the length of the string is the constant T = N + M
        let s: &str = unsafe { core::str::from_utf8_unchecked(&bytes) };
        let strings: [Rc<str>; 1] = [Rc::from(s)];
        let fmt = TranslationsFormatter::verif_new(&strings);
        let mut sink = Sink { buf: [0; CAP], len: 0 };
        let r = {
            let mut f = core::fmt::Formatter::new(&mut sink, core::fmt::FormattingOptions::new());
            core::fmt::Display::fmt(&fmt, &mut f)
        };
        assert!(r.is_ok(), "formatting failed");
        let mut out = [0u32; 2];
        let n = decode(&sink.buf, sink.len, &mut out);
        let want = if M == 0 { 1 } else { 2 };
        assert!(n == Some(want), "exported text is not a JSON array of one string with the same number of characters");
        assert!(out[0] == scalar(&a), "first character does not survive");
        if M != 0 {
            assert!(out[1] == scalar(&b), "second character does not survive");
        }
        kani::cover!(N == 1 && a[0] == b'"', "quote reachable");
        kani::cover!(N == 1 && a[0] < 0x20, "control reachable");
        kani::cover!(N == 2 && a[0] == 0xC2 && a[1] == 0xA0, "nbsp reachable");
        core::mem::forget(strings);
    }

    #[kani::proof]
    #[kani::unwind(9)]
    fn json_char_len1() {
        run::<1, 0, 1>();
    }
    #[kani::proof]
    #[kani::unwind(9)]
    fn json_char_len2() {
        run::<2, 0, 2>();
    }
    #[kani::proof]
    #[kani::unwind(9)]
    fn json_char_len3() {
        run::<3, 0, 3>();
    }
    #[kani::proof]
    #[kani::unwind(9)]
    fn json_char_len4() {
        run::<4, 0, 4>();
    }
    #[kani::proof]
    #[kani::unwind(15)]
    fn json_chars_1_1() {
        run::<1, 1, 2>();
    }
    #[kani::proof]
    #[kani::unwind(15)]
    fn json_chars_1_2() {
        run::<1, 2, 3>();
    }
    #[kani::proof]
    #[kani::unwind(15)]
    fn json_chars_2_1() {
        run::<2, 1, 3>();
    }
    #[kani::proof]
    #[kani::unwind(15)]
    fn json_chars_1_3() {
        run::<1, 3, 4>();
    }
    #[kani::proof]
    #[kani::unwind(15)]
    fn json_chars_3_1() {
        run::<3, 1, 4>();
    }
    #[kani::proof]
    #[kani::unwind(15)]
    fn json_chars_1_4() {
        run::<1, 4, 5>();
    }
    #[kani::proof]
    #[kani::unwind(15)]
    fn json_chars_4_1() {
        run::<4, 1, 5>();
    }

    #[kani::proof]
    #[kani::unwind(9)]
    fn witness_json_reaches_assert() {
        let a: [u8; 1] = kani::any();
        kani::assume(well_formed(&a));
        let s: &str = unsafe { core::str::from_utf8_unchecked(&a) };
        let strings: [Rc<str>; 1] = [Rc::from(s)];
        let fmt = TranslationsFormatter::verif_new(&strings);
        let mut sink = Sink { buf: [0; CAP], len: 0 };
        {
            let mut f = core::fmt::Formatter::new(&mut sink, core::fmt::FormattingOptions::new());
            let _ = core::fmt::Display::fmt(&fmt, &mut f);
        }
        assert!(sink.len == 5, "WITNESS: must be violated (escaped characters give longer output)");
        core::mem::forget(strings);
    }
}
